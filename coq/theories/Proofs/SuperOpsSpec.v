From Coq Require Import Arith List Bool Lia Ring.
From OQ Require Import Lib.RingSum Model.SuperOps.
Import ListNotations.

Section SuperOpsSpec.
Variable K : Ring.
Add Ring Kring4 : (rth K).
Open Scope rg_scope.
Variable conj : K -> K.
Variable iu : K.
Hypothesis conj_add : forall a b, conj (a + b) = conj a + conj b.
Hypothesis conj_mul : forall a b, conj (a * b) = conj a * conj b.
Hypothesis conj_opp : forall a, conj (- a) = - conj a.
Hypothesis conj_one : conj r1 = r1.
Hypothesis conj_zero : conj r0 = r0.
Hypothesis conj_invol : forall a, conj (conj a) = a.
Hypothesis conj_iu : conj iu = - iu.
Local Notation M2 := (M2 K).

Lemma conj_sub a b : conj (a - b) = conj a - conj b.
Proof. replace (a - b) with (a + - b) by ring. rewrite conj_add, conj_opp. ring. Qed.

Lemma conj_sumn n f : conj (sumn n f) = sumn n (fun i => conj (f i)).
Proof. induction n as [|n IH]; cbn [sumn]; [exact conj_zero|]. rewrite conj_add, IH. reflexivity. Qed.

Lemma conj_delta a b : conj (delta a b) = delta a b.
Proof. unfold delta. destruct (Nat.eqb a b); [exact conj_one|exact conj_zero]. Qed.

Lemma delta_sym a b : delta a b = delta b a :> K.
Proof. unfold delta. rewrite Nat.eqb_sym. reflexivity. Qed.

Lemma sum_delta_l d k (f : nat -> K) : k < d -> sumn d (fun i => delta i k * f i) = f k.
Proof.
  intros H. rewrite <- (sumn_delta K d k f H). apply sumn_ext. intros i _. unfold delta.
  destruct (Nat.eqb i k); ring.
Qed.
Lemma sum_delta_r d k (f : nat -> K) : k < d -> sumn d (fun i => f i * delta i k) = f k.
Proof.
  intros H. rewrite <- (sum_delta_l d k f H). apply sumn_ext. intros; ring.
Qed.

Ltac push_conj :=
  repeat first [rewrite conj_add | rewrite conj_mul | rewrite conj_sub | rewrite conj_opp
               | rewrite conj_one | rewrite conj_zero | rewrite conj_delta | rewrite conj_invol
               | rewrite conj_iu].

(* ---- trace preservation: sum_i L[(i,i),(k,l)] = 0 ---------------------------------------- *)
Lemma comm_trace d (H : M2) k l : k < d -> l < d ->
  sumn d (fun i => ls_f H i i k l - rs_f H i i k l) = r0.
Proof.
  intros Hk Hl. rewrite sumn_sub. unfold ls_f, rs_f.
  rewrite (sum_delta_r d l (fun i => H i k) Hl). rewrite (sum_delta_l d k (fun i => H l i) Hk). ring.
Qed.

Lemma diss2_trace d (A : M2) k l : k < d -> l < d -> sumn d (fun i => diss2 conj d A i i k l) = r0.
Proof.
  intros Hk Hl. unfold diss2. rewrite sumn_sub, sumn_mul_l, sumn_add. unfold ls_f, rs_f, lrs_f.
  rewrite (sum_delta_r d l (fun i => mm d (dag conj A) A i k) Hl).
  rewrite (sum_delta_l d k (fun i => mm d (dag conj A) A l i) Hk).
  unfold mm, dag.
  rewrite (sumn_ext K d (fun i => A i k * conj (A i l)) (fun x => conj (A x l) * A x k)) by (intros; ring).
  ring.
Qed.

Lemma liouv2_diss_trace d terms k l : k < d -> l < d ->
  sumn d (fun i => liouv2_diss conj d terms i i k l) = r0.
Proof.
  intros Hk Hl. induction terms as [|[g A] t IH]; cbn [liouv2_diss].
  - apply sumn_zero.
  - rewrite sumn_add, sumn_mul_l, diss2_trace, IH by assumption. ring.
Qed.

Theorem liouvillian_trace d (H : M2) terms k l : k < d -> l < d ->
  sumn d (fun i => liouv2 conj iu d H terms i i k l) = r0.
Proof.
  intros Hk Hl. unfold liouv2. rewrite sumn_add, sumn_mul_l, comm_trace, liouv2_diss_trace by assumption. ring.
Qed.

(* ---- Hermiticity preservation: L[(j,i),(l,k)] = conj L[(i,j),(k,l)] ------------------------ *)
Definition hermitian (H : M2) : Prop := forall i j, conj (H i j) = H j i.

Lemma mm_dag_hermitian d (A : M2) : hermitian (mm d (dag conj A) A).
Proof.
  intros i j. unfold mm, dag. rewrite conj_sumn. apply sumn_ext. intros x _.
  rewrite conj_mul, conj_invol. ring.
Qed.

Lemma comm_herm (H : M2) i j k l : hermitian H ->
  ls_f H j i l k - rs_f H j i l k = - conj (ls_f H i j k l - rs_f H i j k l).
Proof.
  intros HH. unfold ls_f, rs_f. push_conj. rewrite !HH.
  rewrite (delta_sym j l), (delta_sym i k). ring.
Qed.

Lemma diss2_herm d (A : M2) i j k l : diss2 conj d A j i l k = conj (diss2 conj d A i j k l).
Proof.
  unfold diss2. pose proof (mm_dag_hermitian d A) as HH.
  unfold ls_f, rs_f, lrs_f. push_conj. rewrite !HH.
  unfold dag. push_conj. rewrite (delta_sym j l), (delta_sym i k). ring.
Qed.

Lemma liouv2_diss_herm d terms i j k l : (forall g A, In (g, A) terms -> conj g = g) ->
  liouv2_diss conj d terms j i l k = conj (liouv2_diss conj d terms i j k l).
Proof.
  intros Hg. induction terms as [|[g A] t IH]; cbn [liouv2_diss]; [symmetry; exact conj_zero|].
  rewrite conj_add, conj_mul, (Hg g A) by (left; reflexivity). rewrite diss2_herm, IH; [reflexivity|].
  intros g' A' H'. apply (Hg g' A'). right. exact H'.
Qed.

Theorem liouvillian_herm d (H : M2) terms i j k l :
  hermitian H -> (forall g A, In (g, A) terms -> conj g = g) ->
  liouv2 conj iu d H terms j i l k = conj (liouv2 conj iu d H terms i j k l).
Proof.
  intros HH Hg. unfold liouv2.
  rewrite (comm_herm H i j k l HH), (liouv2_diss_herm d terms i j k l Hg). push_conj. ring.
Qed.

(* ---- left / right multiplication --------------------------------------------------------- *)
(* left_super(A) vec(rho) = vec(A rho) ; right_super(B) vec(rho) = vec(rho B) *)
Theorem left_super_acts d (A rho : M2) i j : j < d ->
  sumn d (fun k => sumn d (fun l => ls_f A i j k l * rho k l)) = mm d A rho i j.
Proof.
  intros Hj. unfold mm, ls_f. apply sumn_ext. intros k _.
  rewrite (sumn_ext K d _ (fun l => delta l j * (A i k * rho k l))) by (intros; rewrite (delta_sym j); ring).
  apply (sum_delta_l d j (fun l => A i k * rho k l) Hj).
Qed.

Theorem right_super_acts d (B rho : M2) i j : i < d ->
  sumn d (fun k => sumn d (fun l => rs_f B i j k l * rho k l)) = mm d rho B i j.
Proof.
  intros Hi. unfold mm, rs_f.
  rewrite (sumn_ext K d _ (fun k => delta k i * sumn d (fun l => rho k l * B l j))).
  - apply (sum_delta_l d i (fun k => sumn d (fun l => rho k l * B l j)) Hi).
  - intros k _. rewrite <- sumn_mul_l. apply sumn_ext. intros l _. rewrite (delta_sym i). ring.
Qed.
End SuperOpsSpec.
