(* The Matsubara (imaginary-time) kernel K(u) of a bath at temperature 1/beta is symmetric about beta/2.  Hence the double
   integral over the whole imaginary-time triangle, int_0^beta (beta - u) K(u) du, is beta/2 times int_0^beta K: with
   int_0^beta K = 2 lambda (lambda the reorganisation energy) the total of all Matsubara cells is lambda * beta, whatever the
   number of slices.  Coquelicot. *)
From Coq Require Import Reals Lra.
From Coquelicot Require Import Coquelicot.
Open Scope R_scope.

Lemma matsubara_total (K : R -> R) (beta L : R) :
  (forall u, continuous K u) -> (forall u, K (beta - u) = K u) ->
  is_RInt K 0 beta L ->
  is_RInt (fun u => (beta - u) * K u) 0 beta (beta / 2 * L).
Proof.
  intros Hc Hs HL.
  set (f := fun u => (beta - u) * K u).
  assert (Hcf : forall u, continuous f u).
  { intros u. unfold f. apply (continuous_mult (fun u => beta - u) K).
    - apply (continuous_minus (fun _ => beta) (fun u => u)); [apply continuous_const|apply continuous_id].
    - apply Hc. }
  assert (Hex : ex_RInt f 0 beta).
  { apply (ex_RInt_continuous f). intros u _. apply Hcf. }
  destruct Hex as [I HI].
  (* the reflected integrand *)
  assert (H1 : is_RInt (fun y => scal (-1) (f (-1 * y + beta))) beta 0 I).
  { apply (is_RInt_comp_lin f (-1) beta beta 0 I).
    replace (-1 * beta + beta) with 0 by ring. replace (-1 * 0 + beta) with beta by ring. exact HI. }
  assert (H2 : is_RInt (fun y => y * K y) 0 beta I).
  { apply is_RInt_swap in H1.
    apply (is_RInt_ext (fun y => opp (scal (-1) (f (-1 * y + beta))))).
    - intros y _. unfold f, scal, opp. simpl. unfold mult. simpl.
      replace (-1 * y + beta) with (beta - y) by ring. rewrite Hs. ring.
    - replace I with (opp (opp I)) by apply opp_opp. apply (is_RInt_opp _ _ _ _ H1). }
  assert (H3 : is_RInt (fun y => plus (f y) (y * K y)) 0 beta (plus I I)).
  { apply (is_RInt_plus _ _ _ _ _ _ HI H2). }
  assert (H4 : is_RInt (fun y => scal beta (K y)) 0 beta (scal beta L)).
  { apply (is_RInt_scal _ _ _ _ _ HL). }
  assert (E : plus I I = scal beta L).
  { apply (is_RInt_unique (fun y => scal beta (K y)) 0 beta) in H4 as U4.
    rewrite <- U4. symmetry. apply is_RInt_unique.
    apply (is_RInt_ext (fun y => plus (f y) (y * K y))); [|exact H3].
    intros y _. unfold f, plus, scal. simpl. unfold mult. simpl. ring. }
  replace (beta / 2 * L) with I; [exact HI|].
  unfold plus, scal in E. simpl in E. unfold mult in E. simpl in E. lra.
Qed.
