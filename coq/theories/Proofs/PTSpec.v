From Coq Require Import Arith List Bool Lia Permutation.
From OQ Require Import Lib.RingSum Lib.Tensor Model.Dyn Model.PT Proofs.DynSpec.
Import ListNotations.

(* ---- any order of pairwise commuting maps gives the same composite -------- *)
Section Commute.
Variable V : Type.
Definition compose_all (fs : list (V -> V)) (v : V) : V := fold_left (fun v f => f v) fs v.

Lemma compose_all_perm (fs gs : list (V -> V)) :
  Permutation fs gs ->
  (forall f g, In f fs -> In g fs -> forall v, f (g v) = g (f v)) ->
  forall v, compose_all fs v = compose_all gs v.
Proof.
  intros HP. induction HP as [|f fs gs HP IH|f g fs|fs gs hs HP1 IH1 HP2 IH2]; intros HC v.
  - reflexivity.
  - cbn. apply IH. intros; apply HC; right; assumption.
  - cbn. f_equal. apply HC; cbn; auto.
  - rewrite IH1 by exact HC. apply IH2.
    intros a b Ha Hb. apply HC; eapply Permutation_in; try (apply Permutation_sym; exact HP1); assumption.
Qed.

Variable env : nat -> nat -> V -> V.
Definition apply_envs_in_order (js : list nat) (k : nat) (v : V) : V :=
  fold_left (fun v j => env j k v) js v.

Lemma apply_envs_in_order_compose js k v :
  apply_envs_in_order js k v = compose_all (map (fun j => env j k) js) v.
Proof. unfold apply_envs_in_order, compose_all. revert v; induction js as [|j js IH]; intros v; cbn; auto. Qed.

Lemma apply_envs_seq m k v : apply_envs V env m k v = apply_envs_in_order (seq 0 m) k v.
Proof. reflexivity. Qed.

Theorem env_order_irrelevant_if_commuting m k (js : list nat) :
  Permutation (seq 0 m) js ->
  (forall i j, i < m -> j < m -> forall v, env i k (env j k v) = env j k (env i k v)) ->
  forall v, apply_envs_in_order js k v = apply_envs V env m k v.
Proof.
  intros HP HC v. rewrite apply_envs_seq, !apply_envs_in_order_compose. symmetry.
  apply compose_all_perm.
  - apply Permutation_map. exact HP.
  - intros f g Hf Hg w. apply in_map_iff in Hf, Hg.
    destruct Hf as [i [<- Hi]], Hg as [j [<- Hj]]. apply in_seq in Hi, Hj. apply HC; lia.
Qed.
End Commute.

(* ---- the contraction primitives compute the stated sums -------------------- *)
Section Prim.
Variable K : Ring.
Open Scope rg_scope.
Local Notation T := (T K).

Lemma apply_sys_get dsys (Sm : T) bd cur o bs :
  o < dsys -> Forall2 lt bs bd ->
  get (o :: bs) (snd (apply_sys K dsys (Some Sm) (bd, cur))) =
  sumn dsys (fun i => get [o; i] Sm * get (i :: bs) cur).
Proof.
  intros Ho Hbs. cbn [apply_sys snd]. rewrite get_tab; [reflexivity|]. constructor; assumption.
Qed.

Lemma apply_sys_none dsys v : apply_sys K dsys None v = v.
Proof. reflexivity. Qed.

Lemma apply_mpo_get dsys j p (M : mpo K) bd cur o bs :
  o < dsys -> Forall2 lt bs (upd j (m_db K M) bd) ->
  get (o :: bs) (snd (apply_mpo K dsys j p (Some M) (bd, cur))) =
  sumn (m_da K M) (fun a => sumn dsys (fun i =>
     mpo_fun K p M a (nth j bs 0) i o * get (i :: upd j a bs) cur)).
Proof.
  intros Ho Hbs. cbn [apply_mpo snd]. rewrite get_tab; [reflexivity|]. constructor; assumption.
Qed.

Lemma apply_mpo_bonds dsys j p (M : mpo K) bd cur :
  fst (apply_mpo K dsys j p (Some M) (bd, cur)) = upd j (m_db K M) bd.
Proof. reflexivity. Qed.

Lemma apply_caps_nth dsys caps bd cur o :
  o < dsys ->
  nth o (apply_caps K dsys caps (bd, cur)) r0 =
  sum_idx bd (fun bs => cap_weight K caps bs * get (o :: bs) cur).
Proof.
  intros Ho. cbn [apply_caps]. rewrite nth_map_seq by exact Ho. reflexivity.
Qed.

(* rank-3 tensors are rank-4 tensors with a delta between input and output leg *)
Lemma mpo_fun_rank3 din dout ms caps (M : mpo K) a a' i o :
  m_rank4 K M = false ->
  mpo_fun K (Build_ptensor din dout None None ms caps) M a a' i o =
  if Nat.eqb i o then get [a; a'; i] (m_t K M) else r0.
Proof. intros H. unfold mpo_fun. cbn. rewrite H. reflexivity. Qed.

(* transforms are pre- and post-multiplication on the system legs *)
Lemma mpo_fun_transforms din dout Tin Tout ms caps (M : mpo K) a a' i' o' :
  m_rank4 K M = true ->
  mpo_fun K (Build_ptensor din dout (Some Tin) (Some Tout) ms caps) M a a' i' o' =
  sumn dout (fun o => sumn din (fun i => get [i'; i] Tin * get [a; a'; i; o] (m_t K M)) * get [o; o'] Tout).
Proof. intros H. unfold mpo_fun. cbn. rewrite H. reflexivity. Qed.

End Prim.

(* ---- compute_dynamics = read-outs of the specified augmented states --------- *)
Section CD.
Variable K : Ring.
Local Notation T := (T K).

Theorem compute_dynamics_spec dsys (pts : list (ptensor K)) (pre post : nat -> option T)
        (p1 p2 : nat -> T) N rho0 :
  let m := length pts in
  let dummy := Build_ptensor 0 0 None None [] [] in
  let fpre := fun k => apply_sys K dsys (pre k) in
  let fpost := fun k => apply_sys K dsys (post k) in
  let fp1 := fun k => apply_sys K dsys (Some (p1 k)) in
  let fp2 := fun k => apply_sys K dsys (Some (p2 k)) in
  let fenv := fun j k => let p := nth j pts dummy in apply_mpo K dsys j p (nth k (pt_mpos K p) None) in
  let ro := fun k => apply_caps K dsys (map (fun p => nth k (pt_caps K p) []) pts) in
  let spec := spec_state (aug K) fpre fpost fp1 fp2 fenv m (init_aug K dsys m rho0) in
  compute_dynamics dsys pts pre post p1 p2 true N rho0 = map (fun k => ro k (spec k)) (seq 0 (S N)) /\
  compute_dynamics dsys pts pre post p1 p2 false N rho0 = [ro N (spec N)].
Proof.
  cbv zeta. split.
  - unfold compute_dynamics. apply run_all_spec.
  - unfold compute_dynamics. apply run_final_spec.
Qed.
End CD.
