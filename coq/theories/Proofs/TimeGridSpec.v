From Coq Require Import ZArith List Bool Lia Permutation Sorted.
From OQ Require Import Model.TimeGrid.
Import ListNotations.

Section DynamicsSpec.
Variables T St : Type.
Variable leb : T -> T -> bool.
Hypothesis leb_total : forall a b, leb a b = true \/ leb b a = true.
Hypothesis leb_trans : forall a b c, leb a b = true -> leb b c = true -> leb a c = true.

Definition le (a b : T) : Prop := leb a b = true.
Local Notation bisect := (bisect T leb).
Local Notation dyn_add := (dyn_add T St leb).
Local Notation dyn_of := (dyn_of T St leb).

Fixpoint sorted (l : list T) : Prop :=
  match l with
  | [] => True
  | a :: l' => (forall b, In b l' -> le a b) /\ sorted l'
  end.

Lemma bisect_le x l : bisect x l <= length l.
Proof. induction l as [|e l IH]; cbn; [lia|]. destruct (leb e x); lia. Qed.

Lemma insert_at_length {A} i (x : A) l : i <= length l -> length (insert_at i x l) = S (length l).
Proof.
  intros H. unfold insert_at. rewrite app_length. cbn [length].
  rewrite firstn_length, skipn_length. lia.
Qed.

Lemma insert_at_bisect_cons x e l :
  insert_at (bisect x (e :: l)) x (e :: l) =
  if leb e x then e :: insert_at (bisect x l) x l else x :: e :: l.
Proof. cbn [TimeGrid.bisect]. destruct (leb e x); reflexivity. Qed.

Lemma in_insert_at {A} i (x y : A) l : In y (insert_at i x l) <-> y = x \/ In y l.
Proof.
  unfold insert_at. rewrite in_app_iff. cbn [In].
  rewrite <- (firstn_skipn i l) at 3. rewrite in_app_iff. intuition congruence.
Qed.

Lemma sorted_insert x l : sorted l -> sorted (insert_at (bisect x l) x l).
Proof.
  induction l as [|e l IH]; intros Hs.
  - cbn. split; [intros b []|exact I].
  - rewrite insert_at_bisect_cons. destruct Hs as [He Hs]. destruct (leb e x) eqn:Hex.
    + cbn [sorted]. split; [|apply IH; exact Hs].
      intros b Hb. apply in_insert_at in Hb. destruct Hb as [->|Hb]; [exact Hex|apply He; exact Hb].
    + assert (Hxe : le x e) by (destruct (leb_total e x) as [H|H]; [congruence|exact H]).
      cbn [sorted]. split; [|split; assumption].
      intros b [<-|Hb]; [exact Hxe|]. eapply leb_trans; [exact Hxe|apply He; exact Hb].
Qed.

(* inserting the pair at the bisect index of the time list keeps both lists aligned *)
Lemma combine_insert_at (i : nat) (t : T) (s : St) ts ss :
  length ts = length ss ->
  combine (insert_at i t ts) (insert_at i s ss) = insert_at i (t, s) (combine ts ss).
Proof.
  revert i ss. induction ts as [|a ts IH]; intros i ss HL; destruct ss as [|b ss]; cbn in HL; try lia.
  - destruct i; reflexivity.
  - destruct i as [|i]; [reflexivity|].
    change (insert_at (S i) t (a :: ts)) with (a :: insert_at i t ts).
    change (insert_at (S i) s (b :: ss)) with (b :: insert_at i s ss).
    cbn [combine]. rewrite IH by lia. reflexivity.
Qed.

Lemma perm_insert_at {A} i (x : A) l : Permutation (insert_at i x l) (x :: l).
Proof.
  unfold insert_at. symmetry.
  etransitivity; [|apply Permutation_middle]. constructor. rewrite firstn_skipn. reflexivity.
Qed.

Definition inv (d : dyn T St) (added : list (T * St)) : Prop :=
  length (fst d) = length (snd d) /\ sorted (fst d) /\ Permutation (combine (fst d) (snd d)) added.

Lemma inv_add d added ts : inv d added -> inv (dyn_add d ts) (ts :: added).
Proof.
  intros (HL & HS & HP). destruct d as [tl sl], ts as [t s]. cbn [fst snd] in *.
  unfold TimeGrid.dyn_add. cbn [fst snd]. unfold inv. cbn [fst snd]. repeat split.
  - rewrite !insert_at_length; [lia| rewrite <- HL; apply bisect_le | apply bisect_le].
  - apply sorted_insert. exact HS.
  - rewrite combine_insert_at by exact HL.
    etransitivity; [apply perm_insert_at|]. constructor. exact HP.
Qed.

Theorem dynamics_sorted_aligned (adds : list (T * St)) :
  let d := dyn_of adds in
  length (fst d) = length (snd d) /\ sorted (fst d) /\ Permutation (combine (fst d) (snd d)) adds.
Proof.
  assert (H : forall adds d added, inv d added ->
            inv (fold_left dyn_add adds d) (rev adds ++ added)).
  { clear adds. induction adds as [|a adds IH]; intros d added Hi; [exact Hi|].
    cbn [fold_left rev]. rewrite <- app_assoc. cbn [app]. apply IH. apply inv_add. exact Hi. }
  specialize (H adds ([], []) []). rewrite app_nil_r in H.
  destruct H as (H1 & H2 & H3); [repeat split; constructor|].
  cbv zeta. repeat split; [exact H1|exact H2|].
  etransitivity; [exact H3|]. symmetry. apply Permutation_rev.
Qed.
End DynamicsSpec.

(* ---- labels -------------------------------------------------------------------- *)
Lemma times_all_length start dt n : length (times_all start dt n) = S n.
Proof. unfold times_all. rewrite map_length, seq_length. reflexivity. Qed.

Lemma times_all_nth start dt n k d : k <= n ->
  nth k (times_all start dt n) d = time_label start dt (Z.of_nat k).
Proof.
  intros H. unfold times_all.
  rewrite (nth_indep _ d (time_label start dt (Z.of_nat 0))) by (rewrite map_length, seq_length; lia).
  rewrite (map_nth (fun k => time_label start dt (Z.of_nat k))), seq_nth by lia. reflexivity.
Qed.

(* ---- recorders under restarts ------------------------------------------------------------------------ *)
Lemma r_steps_after_init s n :
  r_step s = 0%nat -> r_rec s = [0%nat] ->
  let s' := fold_left (r_apply false) (repeat RStep n) s in
  r_step s' = n /\ r_rec s' = seq 0 (S n).
Proof.
  intros H0 H1. induction n as [|n IH].
  - cbn. split; [exact H0|exact H1].
  - replace (repeat RStep (S n)) with (repeat RStep n ++ [RStep]) by (symmetry; apply (repeat_cons n RStep)).
    rewrite fold_left_app. cbn [fold_left]. destruct IH as [IHs IHr].
    cbn [r_apply r_step r_rec]. rewrite IHs, IHr. split; [reflexivity|].
    rewrite (seq_S (S n) 0). reflexivity.
Qed.

Lemma restart_fresh_grid_lemma (pre : list rop) (n : nat) :
  rec_labels false (pre ++ RInit :: repeat RStep n) = seq 0 (S n).
Proof.
  unfold rec_labels, r_run. rewrite fold_left_app. cbn [fold_left].
  set (s := r_apply false _ RInit).
  destruct (r_steps_after_init s n) as [_ H]; [reflexivity|reflexivity|exact H].
Qed.

(* ---- MeanFieldDynamics.add: the record is n+1 Dynamics objects fed with the projections of the same history ---- *)
Section MeanFieldDynamicsSpec.
Variables T F St : Type.
Variable leb : T -> T -> bool.
Local Notation mfd_add := (mfd_add T F St leb).
Local Notation mfd_of := (mfd_of T F St leb).

Definition tf (a : T * F * list St) : T * F := fst a.
Definition tsi (i : nat) (d : St) (a : T * F * list St) : T * St := (fst (fst a), nth i (snd a) d).

Lemma dyn_of_snoc {S'} (l : list (T * S')) x :
  dyn_of T S' leb (l ++ [x]) = dyn_add T S' leb (dyn_of T S' leb l) x.
Proof. unfold dyn_of. rewrite fold_left_app. reflexivity. Qed.

Lemma mfd_of_snoc l a : mfd_of (l ++ [a]) = mfd_add (mfd_of l) a.
Proof. unfold TimeGrid.mfd_of. rewrite fold_left_app. reflexivity. Qed.

Lemma nth_map_combine {A B C} (f : A * B -> C) (l1 : list A) (l2 : list B) i dc da db :
  i < length l1 -> length l1 = length l2 ->
  nth i (map f (combine l1 l2)) dc = f (nth i l1 da, nth i l2 db).
Proof.
  revert i l2. induction l1 as [|x l1 IH]; intros i l2 Hi HL; cbn in Hi; [lia|].
  destruct l2 as [|y l2]; cbn in HL; [lia|]. destruct i as [|i]; cbn; [reflexivity|].
  apply IH; lia.
Qed.

Section FixedN.
Variable n : nat.
Definition minv (adds : list (T * F * list St)) (m : mfd T F St) : Prop :=
  fst m = dyn_of T F leb (map tf adds) /\
  (adds = [] -> snd m = []) /\
  (adds <> [] -> length (snd m) = n /\
     forall i d, i < n -> nth i (snd m) ([], []) = dyn_of T St leb (map (tsi i d) adds)).

Lemma minv_step adds m a : minv adds m -> length (snd a) = n -> minv (adds ++ [a]) (mfd_add m a).
Proof.
  intros (H1 & H2 & H3) Ha. unfold minv. repeat split.
  - unfold TimeGrid.mfd_add. cbn [fst]. rewrite map_app. cbn [map]. rewrite dyn_of_snoc, H1. reflexivity.
  - intros E. destruct adds; discriminate E.
  - unfold TimeGrid.mfd_add. cbn [snd]. rewrite map_length, combine_length.
    destruct adds as [|a0 adds].
    + rewrite (H2 eq_refl). rewrite map_length, Ha. apply Nat.min_id.
    + destruct H3 as [HL _]; [discriminate|]. destruct (snd m) as [|d0 sys]; cbn [length] in HL |- *; rewrite ?map_length; unfold dyn in *; (rewrite Nat.min_l by lia); lia.
  - intros i d Hi. unfold TimeGrid.mfd_add. cbn [snd].
    rewrite map_app. cbn [map]. rewrite dyn_of_snoc.
    destruct adds as [|a0 adds].
    + rewrite (H2 eq_refl). cbv iota.
      rewrite (nth_map_combine (fun ds : dyn T St * St => dyn_add T St leb (fst ds) (fst (fst a), snd ds)) _ (snd a) i ([], []) ([], []) d) by (rewrite ?map_length; lia).
      cbn [fst snd]. unfold tsi at 2. f_equal.
      rewrite <- Ha in Hi. clear -Hi. revert i Hi. induction (snd a) as [|s l IH]; intros i Hi; cbn in Hi; [lia|].
      destruct i; cbn; [reflexivity|]. apply IH. lia.
    + destruct H3 as [HL HN]; [discriminate|].
      assert (E : match snd m with [] => map (fun _ => ([], [])) (snd a) | _ :: _ => snd m end = snd m).
      { destruct (snd m); [|reflexivity]. cbn in HL. lia. }
      rewrite E. rewrite (nth_map_combine (fun ds : dyn T St * St => dyn_add T St leb (fst ds) (fst (fst a), snd ds)) _ (snd a) i ([], []) ([], []) d) by lia.
      cbn [fst snd]. rewrite (HN i d Hi). reflexivity.
Qed.

Theorem mfd_refines (adds : list (T * F * list St)) :
  Forall (fun a => length (snd a) = n) adds -> minv adds (mfd_of adds).
Proof.
  induction adds as [|a adds IH] using rev_ind; intros HF.
  - unfold minv. cbn. repeat split; intros; congruence.
  - apply Forall_app in HF. destruct HF as [HF Ha]. inversion Ha; subst.
    rewrite mfd_of_snoc. apply minv_step; [apply IH; exact HF|assumption].
Qed.
End FixedN.

(* the time list of a Dynamics object depends on the added times only *)
Lemma dyn_times_only {S1 S2} (l1 : list (T * S1)) (l2 : list (T * S2)) :
  map fst l1 = map fst l2 -> fst (dyn_of T S1 leb l1) = fst (dyn_of T S2 leb l2).
Proof.
  revert l2. induction l1 as [|x l1 IH] using rev_ind; intros l2 E.
  - destruct l2; [reflexivity|discriminate].
  - destruct l2 as [|y l2 _] using rev_ind.
    + rewrite map_app in E. destruct (map fst l1); discriminate.
    + rewrite !map_app in E. cbn [map] in E. apply app_inj_tail in E. destruct E as [E1 E2].
      rewrite !dyn_of_snoc. unfold TimeGrid.dyn_add. cbn [fst]. rewrite (IH l2 E1), E2. reflexivity.
Qed.
End MeanFieldDynamicsSpec.

Theorem mfd_aligned (T F St : Type) (leb : T -> T -> bool) :
  (forall a b, leb a b = true \/ leb b a = true) ->
  (forall a b c, leb a b = true -> leb b c = true -> leb a c = true) ->
  forall (n : nat) (adds : list (T * F * list St)),
    Forall (fun a => length (snd a) = n) adds -> adds <> [] ->
    let m := mfd_of T F St leb adds in
    let times := fst (fst m) in
    sorted T leb times /\
    Permutation (combine times (snd (fst m))) (map fst adds) /\
    length (snd m) = n /\
    forall i d, i < n ->
      fst (nth i (snd m) ([], [])) = times /\
      Permutation (combine times (snd (nth i (snd m) ([], [])))) (map (tsi T F St i d) adds).
Proof.
  intros Htot Htr n adds HF Hne. cbv zeta.
  destruct (mfd_refines T F St leb n adds HF) as (H1 & _ & H3).
  destruct (H3 Hne) as [HL HN].
  destruct (dynamics_sorted_aligned T F leb Htot Htr (map (tf T F St) adds)) as (_ & Hs & Hp).
  rewrite H1. repeat split; [exact Hs|exact Hp|exact HL|..].
  - rewrite (HN i d H). apply dyn_times_only. rewrite !map_map. reflexivity.
  - rewrite (HN i d H).
    destruct (dynamics_sorted_aligned T St leb Htot Htr (map (tsi T F St i d) adds)) as (_ & _ & Hp').
    rewrite <- (dyn_times_only T leb (map (tsi T F St i d) adds) (map (tf T F St) adds)) by (rewrite !map_map; reflexivity).
    exact Hp'.
Qed.
