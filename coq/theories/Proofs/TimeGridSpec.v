From Coq Require Import ZArith List Bool Lia Permutation Sorted.
From OQ Require Import Model.TimeGrid.
Import ListNotations.

Section DynamicsSpec.
Variables T St : Type.
Variable leb : T -> T -> bool.
Hypothesis leb_total : forall a b, leb a b = true \/ leb b a = true.
Hypothesis leb_trans : forall a b c, leb a b = true -> leb b c = true -> leb a c = true.

Definition le (a b : T) : Prop := leb a b = true.
Local Notation bisect := (bisect T leb).
Local Notation dyn_add := (dyn_add T St leb).
Local Notation dyn_of := (dyn_of T St leb).

Fixpoint sorted (l : list T) : Prop :=
  match l with
  | [] => True
  | a :: l' => (forall b, In b l' -> le a b) /\ sorted l'
  end.

Lemma bisect_le x l : bisect x l <= length l.
Proof. induction l as [|e l IH]; cbn; [lia|]. destruct (leb e x); lia. Qed.

Lemma insert_at_length {A} i (x : A) l : i <= length l -> length (insert_at i x l) = S (length l).
Proof.
  intros H. unfold insert_at. rewrite app_length. cbn [length].
  rewrite firstn_length, skipn_length. lia.
Qed.

Lemma insert_at_bisect_cons x e l :
  insert_at (bisect x (e :: l)) x (e :: l) =
  if leb e x then e :: insert_at (bisect x l) x l else x :: e :: l.
Proof. cbn [TimeGrid.bisect]. destruct (leb e x); reflexivity. Qed.

Lemma in_insert_at {A} i (x y : A) l : In y (insert_at i x l) <-> y = x \/ In y l.
Proof.
  unfold insert_at. rewrite in_app_iff. cbn [In].
  rewrite <- (firstn_skipn i l) at 3. rewrite in_app_iff. intuition congruence.
Qed.

Lemma sorted_insert x l : sorted l -> sorted (insert_at (bisect x l) x l).
Proof.
  induction l as [|e l IH]; intros Hs.
  - cbn. split; [intros b []|exact I].
  - rewrite insert_at_bisect_cons. destruct Hs as [He Hs]. destruct (leb e x) eqn:Hex.
    + cbn [sorted]. split; [|apply IH; exact Hs].
      intros b Hb. apply in_insert_at in Hb. destruct Hb as [->|Hb]; [exact Hex|apply He; exact Hb].
    + assert (Hxe : le x e) by (destruct (leb_total e x) as [H|H]; [congruence|exact H]).
      cbn [sorted]. split; [|split; assumption].
      intros b [<-|Hb]; [exact Hxe|]. eapply leb_trans; [exact Hxe|apply He; exact Hb].
Qed.

(* inserting the pair at the bisect index of the time list keeps both lists aligned *)
Lemma combine_insert_at (i : nat) (t : T) (s : St) ts ss :
  length ts = length ss ->
  combine (insert_at i t ts) (insert_at i s ss) = insert_at i (t, s) (combine ts ss).
Proof.
  revert i ss. induction ts as [|a ts IH]; intros i ss HL; destruct ss as [|b ss]; cbn in HL; try lia.
  - destruct i; reflexivity.
  - destruct i as [|i]; [reflexivity|].
    change (insert_at (S i) t (a :: ts)) with (a :: insert_at i t ts).
    change (insert_at (S i) s (b :: ss)) with (b :: insert_at i s ss).
    cbn [combine]. rewrite IH by lia. reflexivity.
Qed.

Lemma perm_insert_at {A} i (x : A) l : Permutation (insert_at i x l) (x :: l).
Proof.
  unfold insert_at. symmetry.
  etransitivity; [|apply Permutation_middle]. constructor. rewrite firstn_skipn. reflexivity.
Qed.

Definition inv (d : dyn T St) (added : list (T * St)) : Prop :=
  length (fst d) = length (snd d) /\ sorted (fst d) /\ Permutation (combine (fst d) (snd d)) added.

Lemma inv_add d added ts : inv d added -> inv (dyn_add d ts) (ts :: added).
Proof.
  intros (HL & HS & HP). destruct d as [tl sl], ts as [t s]. cbn [fst snd] in *.
  unfold TimeGrid.dyn_add. cbn [fst snd]. unfold inv. cbn [fst snd]. repeat split.
  - rewrite !insert_at_length; [lia| rewrite <- HL; apply bisect_le | apply bisect_le].
  - apply sorted_insert. exact HS.
  - rewrite combine_insert_at by exact HL.
    etransitivity; [apply perm_insert_at|]. constructor. exact HP.
Qed.

Theorem dynamics_sorted_aligned (adds : list (T * St)) :
  let d := dyn_of adds in
  length (fst d) = length (snd d) /\ sorted (fst d) /\ Permutation (combine (fst d) (snd d)) adds.
Proof.
  assert (H : forall adds d added, inv d added ->
            inv (fold_left dyn_add adds d) (rev adds ++ added)).
  { clear adds. induction adds as [|a adds IH]; intros d added Hi; [exact Hi|].
    cbn [fold_left rev]. rewrite <- app_assoc. cbn [app]. apply IH. apply inv_add. exact Hi. }
  specialize (H adds ([], []) []). rewrite app_nil_r in H.
  destruct H as (H1 & H2 & H3); [repeat split; constructor|].
  cbv zeta. repeat split; [exact H1|exact H2|].
  etransitivity; [exact H3|]. symmetry. apply Permutation_rev.
Qed.
End DynamicsSpec.

(* ---- labels -------------------------------------------------------------------- *)
Lemma times_all_length start dt n : length (times_all start dt n) = S n.
Proof. unfold times_all. rewrite map_length, seq_length. reflexivity. Qed.

Lemma times_all_nth start dt n k d : k <= n ->
  nth k (times_all start dt n) d = time_label start dt (Z.of_nat k).
Proof.
  intros H. unfold times_all.
  rewrite (nth_indep _ d (time_label start dt (Z.of_nat 0))) by (rewrite map_length, seq_length; lia).
  rewrite (map_nth (fun k => time_label start dt (Z.of_nat k))), seq_nth by lia. reflexivity.
Qed.

(* ---- recorders under restarts ------------------------------------------------------------------------ *)
Lemma r_steps_after_init s n :
  r_step s = 0%nat -> r_rec s = [0%nat] ->
  let s' := fold_left (r_apply false) (repeat RStep n) s in
  r_step s' = n /\ r_rec s' = seq 0 (S n).
Proof.
  intros H0 H1. induction n as [|n IH].
  - cbn. split; [exact H0|exact H1].
  - replace (repeat RStep (S n)) with (repeat RStep n ++ [RStep]) by (symmetry; apply (repeat_cons n RStep)).
    rewrite fold_left_app. cbn [fold_left]. destruct IH as [IHs IHr].
    cbn [r_apply r_step r_rec]. rewrite IHs, IHr. split; [reflexivity|].
    rewrite (seq_S (S n) 0). reflexivity.
Qed.

Lemma restart_fresh_grid_lemma (pre : list rop) (n : nat) :
  rec_labels false (pre ++ RInit :: repeat RStep n) = seq 0 (S n).
Proof.
  unfold rec_labels, r_run. rewrite fold_left_app. cbn [fold_left].
  set (s := r_apply false _ RInit).
  destruct (r_steps_after_init s n) as [_ H]; [reflexivity|reflexivity|exact H].
Qed.
