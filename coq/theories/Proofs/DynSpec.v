From Coq Require Import Arith List Lia.
From OQ Require Import Model.Dyn.
Import ListNotations.

Section DynSpec.
Variables V St : Type.
Variables pre post p1 p2 : nat -> V -> V.
Variable env : nat -> nat -> V -> V.
Variable m : nat.
Variable readout : nat -> V -> St.

Local Notation run_from := (run_from V St pre post p1 p2 env m readout).
Local Notation final_from := (final_from V pre post p1 p2 env m).
Local Notation step := (step V post p1 p2 env m).
Local Notation spec_state := (spec_state V pre post p1 p2 env m).
Local Notation run := (run V St pre post p1 p2 env m readout).

(* generalised: starting at step k with the not-yet-pre-controlled state v *)
Fixpoint spec_from (k : nat) (v : V) (i : nat) : V :=
  match i with
  | O => pre k v
  | S i' => spec_from (S k) (step k (pre k v)) i'
  end.

Lemma run_from_spec n : forall k v,
  run_from n k v = map (fun i => readout (k + i) (spec_from k v i)) (seq 0 (S n)).
Proof.
  induction n as [|n IH]; intros k v.
  - cbn. rewrite Nat.add_0_r. reflexivity.
  - cbn [Dyn.run_from]. rewrite IH.
    change (seq 0 (S (S n))) with (0 :: seq 1 (S n)).
    cbn [map]. rewrite Nat.add_0_r. f_equal.
    rewrite <- seq_shift, map_map. apply map_ext. intros i.
    rewrite Nat.add_succ_r. reflexivity.
Qed.

Lemma spec_from_S k v i :
  spec_from k v (S i) = pre (k + S i) (step (k + i) (spec_from k v i)).
Proof.
  revert k v; induction i as [|i IH]; intros k v.
  - cbn. rewrite Nat.add_0_r, Nat.add_1_r. reflexivity.
  - change (spec_from k v (S (S i)))
      with (spec_from (S k) (step k (pre k v)) (S i)).
    rewrite IH. cbn [spec_from].
    replace (S k + S i) with (k + S (S i)) by lia.
    replace (S k + i) with (k + S i) by lia. reflexivity.
Qed.

Lemma spec_from_0 v0 i : spec_from 0 v0 i = spec_state v0 i.
Proof.
  induction i as [|i IH]; [reflexivity|].
  rewrite spec_from_S. cbn [Dyn.spec_state]. rewrite IH. reflexivity.
Qed.

Theorem run_all_spec N v0 :
  run true N v0 = map (fun k => readout k (spec_state v0 k)) (seq 0 (S N)).
Proof.
  unfold Dyn.run. rewrite run_from_spec. apply map_ext. intros i.
  rewrite spec_from_0. reflexivity.
Qed.

Lemma final_from_spec n : forall k v, final_from n k v = spec_from k v n.
Proof.
  induction n as [|n IH]; intros k v; cbn; [reflexivity|]. apply IH.
Qed.

Theorem run_final_spec N v0 :
  run false N v0 = [readout N (spec_state v0 N)].
Proof.
  unfold Dyn.run. rewrite final_from_spec, spec_from_0. reflexivity.
Qed.

(* the recorded list has exactly N+1 entries and entry k is the state at step k *)
Corollary run_length N v0 : length (run true N v0) = S N.
Proof. rewrite run_all_spec, map_length, seq_length. reflexivity. Qed.

Corollary run_nth N v0 k d : k <= N ->
  nth k (run true N v0) d = readout k (spec_state v0 k).
Proof.
  intros Hk. rewrite run_all_spec.
  rewrite (nth_indep _ d (readout 0 (spec_state v0 0))) by (rewrite map_length, seq_length; lia).
  change (readout 0 (spec_state v0 0)) with ((fun k => readout k (spec_state v0 k)) 0).
  rewrite map_nth, seq_nth by lia. reflexivity.
Qed.

(* prefix property of the control flow itself: the first n+1 recorded states of an
   N-step run are those of the n-step run, *if the read-out is the same* *)
Corollary run_prefix n N v0 : n <= N ->
  firstn (S n) (run true N v0) = run true n v0.
Proof.
  intros H. rewrite !run_all_spec.
  rewrite firstn_map. f_equal.
  replace (S N) with (S n + (N - n)) by lia.
  rewrite seq_app, firstn_app, seq_length, Nat.sub_diag, firstn_O, app_nil_r.
  rewrite firstn_all2 by (rewrite seq_length; lia). reflexivity.
Qed.

End DynSpec.
