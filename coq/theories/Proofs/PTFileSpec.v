From Coq Require Import Arith List Bool Lia.
From OQ Require Import Model.PTFile.
Import ListNotations.

Section PTFileSpec.
Variables X D S : Type.
Local Notation tensor := (tensor X).
Local Notation slot := (slot X).
Local Notation file := (file X D S).
Local Notation spt := (spt X D S).

Definition normalize (t : option tensor) : option tensor :=
  match t with
  | None => None
  | Some t => if is_hdf5_none X t then None else Some t
  end.

Lemma upd_slot_length j x (l : list slot) : length (upd_slot X j x l) = length l.
Proof. revert j; induction l as [|h t IH]; intros [|j]; cbn; auto. Qed.

Lemma nth_error_upd_same j x (l : list slot) : j < length l -> nth_error (upd_slot X j x l) j = Some x.
Proof. revert j; induction l as [|h t IH]; intros [|j] H; cbn in *; try lia; auto. apply IH; lia. Qed.

Lemma nth_error_upd_other j k x (l : list slot) : j <> k -> nth_error (upd_slot X j x l) k = nth_error l k.
Proof. revert j k; induction l as [|h t IH]; intros [|j] [|k] H; cbn; try lia; auto. Qed.

Lemma is_none_hdf5_none : is_hdf5_none X (hdf5_none X) = true.
Proof. reflexivity. Qed.

Lemma set_slot_length step t (sl : list slot) : length (set_slot X step t sl) = Nat.max (length sl) (Datatypes.S step).
Proof. unfold set_slot. rewrite upd_slot_length, app_length, repeat_length. lia. Qed.

Theorem get_set_same step t (sl : list slot) :
  get_slot X step (set_slot X step t sl) = Ok (normalize t).
Proof.
  unfold get_slot, set_slot. rewrite nth_error_upd_same.
  - destruct t as [t|]; cbn [normalize]; [reflexivity|]. rewrite is_none_hdf5_none. reflexivity.
  - rewrite app_length, repeat_length. lia.
Qed.

Theorem get_set_other step j t (sl : list slot) :
  j <> step -> j < length sl -> get_slot X j (set_slot X step t sl) = get_slot X j sl.
Proof.
  intros Hne Hj. unfold get_slot, set_slot. rewrite nth_error_upd_other by auto.
  rewrite nth_error_app1 by exact Hj. reflexivity.
Qed.

Lemma upd_slot_append x (sl : list slot) : upd_slot X (length sl) x (sl ++ [None]) = sl ++ [x].
Proof. induction sl as [|h t IH]; cbn; [reflexivity|]. rewrite IH. reflexivity. Qed.

Lemma set_slot_append t (sl : list slot) : set_slot X (length sl) (Some t) sl = sl ++ [Some t].
Proof.
  unfold set_slot. replace (Datatypes.S (length sl) - length sl) with 1 by lia. cbn [repeat].
  apply upd_slot_append.
Qed.

(* ---- the writer ---------------------------------------------------------- *)
Definition not_close (o : wop X S) : Prop := match o with WClose _ _ => False | _ => True end.

Lemma wstep_keeps_flag (f : file) o : not_close o -> f_writing X D S (wstep X D S f o) = f_writing X D S f.
Proof. destruct o; cbn; tauto. Qed.

Lemma writer_keeps_flag ops : forall f : file, Forall not_close ops ->
  f_writing X D S (fold_left (wstep X D S) ops f) = f_writing X D S f.
Proof.
  induction ops as [|o ops IH]; intros f H; [reflexivity|]. inversion H; subst.
  cbn [fold_left]. rewrite IH by assumption. apply wstep_keeps_flag. assumption.
Qed.

(* any state the writer passes through before close() has the flag set *)
Theorem crash_flagged (p : spt) ops :
  Forall not_close ops -> f_writing X D S (fold_left (wstep X D S) ops (create X D S p)) = true.
Proof. intros H. rewrite writer_keeps_flag by exact H. reflexivity. Qed.

Theorem crash_detected (p : spt) ops (d : disk X D S) :
  Forall not_close ops ->
  d = Unreadable X D S \/ d = Content X D S (fold_left (wstep X D S) ops (create X D S p)) ->
  forall f, open_read X D S d <> Clean f.
Proof.
  intros H [->| ->] f; cbn [open_read]; [discriminate|].
  rewrite crash_flagged by exact H. discriminate.
Qed.

Lemma export_ops_prefix_not_close (p : spt) ops rest :
  export_ops X D S p = ops ++ rest -> rest <> [] -> Forall not_close ops.
Proof.
  unfold export_ops. intros H Hr.
  set (body := WInit X S (s_init X D S p)
               :: map (fun kt => WMpo X S (fst kt) (snd kt)) (number_from 0 (s_mpos X D S p))
               ++ map (fun kt => WCap X S (fst kt) (snd kt)) (number_from 0 (s_caps X D S p))).
  assert (Hb : Forall not_close body).
  { unfold body. constructor; [exact I|]. apply Forall_app; split; apply Forall_forall;
      intros o Ho; apply in_map_iff in Ho; destruct Ho as [kt [<- _]]; exact I. }
  assert (Heq : body ++ [WClose X S] = ops ++ rest).
  { rewrite <- H. unfold body. cbn [app]. rewrite <- app_assoc. reflexivity. }
  destruct (exists_last Hr) as [rest' [o Hlast]]. subst rest.
  rewrite app_assoc in Heq. apply app_inj_tail in Heq. destruct Heq as [Heq _].
  rewrite Heq in Hb. apply Forall_app in Hb. tauto.
Qed.

(* export() killed anywhere before close() returns *)
Theorem export_crash_detected (p : spt) ops rest f :
  export_ops X D S p = ops ++ rest -> rest <> [] ->
  open_read X D S (Content X D S (fold_left (wstep X D S) ops (create X D S p))) <> Clean f.
Proof.
  intros H Hr. eapply crash_detected; [eapply export_ops_prefix_not_close; eassumption|right; reflexivity].
Qed.

Lemma fold_wstep_app ops1 ops2 (f : file) :
  fold_left (wstep X D S) (ops1 ++ ops2) f = fold_left (wstep X D S) ops2 (fold_left (wstep X D S) ops1 f).
Proof. apply fold_left_app. Qed.

Definition export_body (p : spt) : list (wop X S) :=
  WInit X S (s_init X D S p)
  :: map (fun kt => WMpo X S (fst kt) (snd kt)) (number_from 0 (s_mpos X D S p))
  ++ map (fun kt => WCap X S (fst kt) (snd kt)) (number_from 0 (s_caps X D S p)).

Lemma export_ops_split (p : spt) : export_ops X D S p = export_body p ++ [WClose X S].
Proof. unfold export_ops, export_body. cbn [app]. rewrite <- app_assoc. reflexivity. Qed.

Theorem clean_close_unflagged (p : spt) : f_writing X D S (export X D S p) = false.
Proof. unfold export. rewrite export_ops_split, fold_wstep_app. reflexivity. Qed.

(* ---- export / import round trip ------------------------------------------- *)
Definition clean_tensor (t : tensor) : Prop := is_hdf5_none X t = false.
Definition wf (p : spt) : Prop :=
  normalize (s_init X D S p) = s_init X D S p /\
  Forall clean_tensor (s_mpos X D S p) /\ Forall clean_tensor (s_caps X D S p).

Lemma fold_mpos ts : forall k (f : file),
  fold_left (wstep X D S) (map (fun kt => WMpo X S (fst kt) (snd kt)) (number_from k ts)) f =
  set_all X D S (set_mpo X D S) k ts f.
Proof. induction ts as [|t ts IH]; intros k f; cbn; [reflexivity|]. apply IH. Qed.
Lemma fold_caps ts : forall k (f : file),
  fold_left (wstep X D S) (map (fun kt => WCap X S (fst kt) (snd kt)) (number_from k ts)) f =
  set_all X D S (set_cap X D S) k ts f.
Proof. induction ts as [|t ts IH]; intros k f; cbn; [reflexivity|]. apply IH. Qed.

Lemma set_all_mpos ts : forall (f : file),
  let f' := set_all X D S (set_mpo X D S) (length (f_mpos X D S f)) ts f in
  f_mpos X D S f' = f_mpos X D S f ++ map Some ts /\
  f_caps X D S f' = f_caps X D S f /\ f_init X D S f' = f_init X D S f /\
  f_hs X D S f' = f_hs X D S f /\ f_dt X D S f' = f_dt X D S f /\ f_tin X D S f' = f_tin X D S f /\
  f_tout X D S f' = f_tout X D S f /\ f_name X D S f' = f_name X D S f /\ f_desc X D S f' = f_desc X D S f /\
  f_writing X D S f' = f_writing X D S f.
Proof.
  induction ts as [|t ts IH]; intros f; cbn [set_all].
  - cbn. rewrite app_nil_r. repeat split.
  - specialize (IH (set_mpo X D S (length (f_mpos X D S f)) (Some t) f)).
    cbn zeta in IH. cbn [set_mpo f_mpos] in IH. rewrite !set_slot_append in IH.
    rewrite app_length in IH. cbn [length] in IH. rewrite Nat.add_1_r in IH.
    cbn zeta in *. destruct IH as (H1 & H2 & H3 & H4 & H5 & H6 & H7 & H8 & H9 & H10).
    cbn [set_mpo f_mpos f_caps f_init f_hs f_dt f_tin f_tout f_name f_desc f_writing] in *.
    repeat split; try assumption. rewrite H1, <- app_assoc. reflexivity.
Qed.

Lemma set_all_caps ts : forall (f : file),
  let f' := set_all X D S (set_cap X D S) (length (f_caps X D S f)) ts f in
  f_caps X D S f' = f_caps X D S f ++ map Some ts /\
  f_mpos X D S f' = f_mpos X D S f /\ f_init X D S f' = f_init X D S f /\
  f_hs X D S f' = f_hs X D S f /\ f_dt X D S f' = f_dt X D S f /\ f_tin X D S f' = f_tin X D S f /\
  f_tout X D S f' = f_tout X D S f /\ f_name X D S f' = f_name X D S f /\ f_desc X D S f' = f_desc X D S f /\
  f_writing X D S f' = f_writing X D S f.
Proof.
  induction ts as [|t ts IH]; intros f; cbn [set_all].
  - cbn. rewrite app_nil_r. repeat split.
  - specialize (IH (set_cap X D S (length (f_caps X D S f)) (Some t) f)).
    cbn zeta in IH. cbn [set_cap f_caps] in IH. rewrite !set_slot_append in IH.
    rewrite app_length in IH. cbn [length] in IH. rewrite Nat.add_1_r in IH.
    cbn zeta in *. destruct IH as (H1 & H2 & H3 & H4 & H5 & H6 & H7 & H8 & H9 & H10).
    cbn [set_cap f_mpos f_caps f_init f_hs f_dt f_tin f_tout f_name f_desc f_writing] in *.
    repeat split; try assumption. rewrite H1, <- app_assoc. reflexivity.
Qed.

Lemma get_slot_map_some (ts : list tensor) k :
  get_slot X k (map Some ts) =
  match nth_error ts k with
  | None => IndexErr
  | Some t => Ok (if is_hdf5_none X t then None else Some t)
  end.
Proof. unfold get_slot. rewrite nth_error_map. destruct (nth_error ts k); reflexivity. Qed.

Lemma read_mpos_ok (ts : list tensor) : Forall clean_tensor ts ->
  forall pre fuel, fuel > length ts ->
  read_mpos X fuel (length pre) (map Some (pre ++ ts)) = Ok ts.
Proof.
  induction ts as [|t ts IH]; intros H pre fuel Hf; destruct fuel as [|fuel]; try (cbn in Hf; lia).
  - cbn [read_mpos]. rewrite get_slot_map_some, app_nil_r.
    replace (nth_error pre (length pre)) with (@None tensor) by (symmetry; apply nth_error_None; lia).
    reflexivity.
  - inversion H as [|? ? Ht Hts]; subst. cbn [read_mpos]. rewrite get_slot_map_some.
    rewrite nth_error_app2 by lia. rewrite Nat.sub_diag. cbn [nth_error].
    unfold clean_tensor in Ht. rewrite Ht.
    specialize (IH Hts (pre ++ [t]) fuel). rewrite app_length in IH. cbn [length] in IH.
    rewrite Nat.add_1_r, <- app_assoc in IH. cbn [app] in IH.
    rewrite IH by (cbn in Hf; lia). reflexivity.
Qed.

Lemma read_caps_ok (ts : list tensor) : Forall clean_tensor ts ->
  forall pre fuel, fuel > length ts ->
  read_caps X fuel (length pre) (map Some (pre ++ ts)) = Ok ts.
Proof.
  induction ts as [|t ts IH]; intros H pre fuel Hf; destruct fuel as [|fuel]; try (cbn in Hf; lia).
  - cbn [read_caps]. rewrite get_slot_map_some, app_nil_r.
    replace (nth_error pre (length pre)) with (@None tensor) by (symmetry; apply nth_error_None; lia).
    reflexivity.
  - inversion H as [|? ? Ht Hts]; subst. cbn [read_caps]. rewrite get_slot_map_some.
    rewrite nth_error_app2 by lia. rewrite Nat.sub_diag. cbn [nth_error].
    unfold clean_tensor in Ht. rewrite Ht.
    specialize (IH Hts (pre ++ [t]) fuel). rewrite app_length in IH. cbn [length] in IH.
    rewrite Nat.add_1_r, <- app_assoc in IH. cbn [app] in IH.
    rewrite IH by (cbn in Hf; lia). reflexivity.
Qed.

Theorem roundtrip_simple (p : spt) : wf p -> import_simple X D S (export X D S p) = Ok p.
Proof.
  intros (Hi & Hm & Hc).
  unfold export, export_ops. cbn [fold_left]. rewrite !fold_wstep_app, fold_mpos, fold_caps.
  set (f0 := wstep X D S (create X D S p) (WInit X S (s_init X D S p))).
  pose proof (set_all_mpos (s_mpos X D S p) f0) as Hmp. cbn zeta in Hmp.
  change (length (f_mpos X D S f0)) with 0 in Hmp.
  set (f1 := set_all X D S (set_mpo X D S) 0 (s_mpos X D S p) f0) in *.
  destruct Hmp as (M1 & M2 & M3 & M4 & M5 & M6 & M7 & M8 & M9 & M10).
  pose proof (set_all_caps (s_caps X D S p) f1) as Hcp. cbn zeta in Hcp.
  rewrite M2 in Hcp. change (length (f_caps X D S f0)) with 0 in Hcp.
  set (f2 := set_all X D S (set_cap X D S) 0 (s_caps X D S p) f1) in *.
  destruct Hcp as (C1 & C2 & C3 & C4 & C5 & C6 & C7 & C8 & C9 & C10).
  cbn [fold_left wstep]. unfold import_simple.
  cbn [close f_init f_mpos f_caps f_hs f_dt f_tin f_tout f_name f_desc].
  rewrite C3, M3, C2, M1, C1.
  change (f_init X D S f0) with (set_slot X 0 (s_init X D S p) (set_slot X 0 None [None])).
  change (f_mpos X D S f0) with (@nil slot). change (f_caps X D S f0) with (@nil slot).
  cbn [app]. rewrite get_set_same, Hi.
  rewrite (read_mpos_ok _ Hm []) by (rewrite map_length; lia).
  rewrite (read_caps_ok _ Hc []) by (rewrite map_length; lia).
  rewrite C4, M4, C5, M5, C6, M6, C7, M7, C8, M8, C9, M9.
  destruct p; reflexivity.
Qed.

(* the imported object is usable: its initial tensor is None whenever the original's was *)
Corollary imported_initial_none (p : spt) : wf p -> s_init X D S p = None ->
  exists q, import_simple X D S (export X D S p) = Ok q /\ s_init X D S q = None.
Proof. intros H Hn. exists p. split; [apply roundtrip_simple; exact H|exact Hn]. Qed.

(* ---- close() / remove() in any order -------------------------------------------------- *)
Lemma fo_step_keeps (o : fobj) op :
  o_mode (fst (fo_step false o op)) = o_mode o /\ o_given (fst (fo_step false o op)) = o_given o.
Proof. destruct op; cbn; [split; reflexivity|]. destruct (negb (removeable (o_mode o) (o_given o))); split; reflexivity. Qed.

(* an object that is not entitled to delete its file never deletes it, whatever sequence of close() and remove() it is given
   (and every remove() is refused) *)
Theorem not_entitled_never_deletes ops : forall o : fobj,
  removeable (o_mode o) (o_given o) = false ->
  o_there (fo_final false o ops) = o_there o /\
  Forall (fun r => snd r = o_there o) (fo_run false o ops).
Proof.
  induction ops as [|op t IH]; intros o H; [split; [reflexivity|constructor]|].
  cbn [fo_final fo_run].
  destruct op; cbn [fo_step].
  - cbn [fst]. destruct (IH {| o_mode := o_mode o; o_given := o_given o; o_open := false; o_there := o_there o |} H) as [I1 I2].
    split; [exact I1|]. constructor; [reflexivity|exact I2].
  - rewrite H. cbn [negb andb fst].
    destruct (IH {| o_mode := o_mode o; o_given := o_given o; o_open := false; o_there := o_there o |} H) as [I1 I2].
    split; [exact I1|]. constructor; [reflexivity|exact I2].
Qed.

(* an entitled object deletes it at its first remove(), open or closed *)
Theorem entitled_removes (o : fobj) pre :
  removeable (o_mode o) (o_given o) = true -> Forall (fun op => op = FClose) pre ->
  o_there (fo_final false o (pre ++ [FRemove])) = false.
Proof.
  revert o. induction pre as [|op t IH]; intros o H Hp.
  - cbn. rewrite H. reflexivity.
  - inversion Hp as [|? ? Hop Ht]; subst. cbn [app fo_final fo_step fst]. apply IH; [exact H|exact Ht].
Qed.

(* ---- decision tables -------------------------------------------------------- *)
(* ---- name / description set while the file is being written --------------------------- *)
Definition is_rename (o : wop X S) : bool := match o with WName _ _ _ | WDesc _ _ _ => true | _ => false end.
Definition last_name (ops : list (wop X S)) (n0 : S) : S :=
  fold_left (fun acc o => match o with WName _ _ n => n | _ => acc end) ops n0.
Definition last_desc (ops : list (wop X S)) (n0 : S) : S :=
  fold_left (fun acc o => match o with WDesc _ _ n => n | _ => acc end) ops n0.

(* everything but the two attributes *)
Definition payload (f : file) :=
  (f_writing X D S f, f_hs X D S f, f_dt X D S f, f_tin X D S f, f_tout X D S f, f_init X D S f, f_mpos X D S f, f_caps X D S f).

Lemma fold_names ops : forall f : file,
  f_name X D S (fold_left (wstep X D S) ops f) = last_name ops (f_name X D S f) /\
  f_desc X D S (fold_left (wstep X D S) ops f) = last_desc ops (f_desc X D S f).
Proof.
  induction ops as [|o ops IH]; intros f; [split; reflexivity|].
  unfold last_name, last_desc. cbn [fold_left]. destruct (IH (wstep X D S f o)) as [Hn Hd].
  rewrite Hn, Hd. unfold last_name, last_desc. destruct o; split; reflexivity.
Qed.

(* the attributes of the file are the ones set last (or those given at creation), whatever else was written in between *)
Theorem names_follow_setters (p : spt) ops :
  f_name X D S (fold_left (wstep X D S) ops (create X D S p)) = last_name ops (s_name X D S p) /\
  f_desc X D S (fold_left (wstep X D S) ops (create X D S p)) = last_desc ops (s_desc X D S p).
Proof. apply (fold_names ops (create X D S p)). Qed.

Lemma wstep_rename_payload (f : file) o : is_rename o = true -> payload (wstep X D S f o) = payload f.
Proof. destruct o; cbn; intros H; try discriminate; reflexivity. Qed.

Lemma wstep_payload_congr (f g : file) o : payload f = payload g -> payload (wstep X D S f o) = payload (wstep X D S g o).
Proof.
  unfold payload. intros H. inversion H as [[H1 H2 H3 H4 H5 H6 H7 H8]].
  destruct o; cbn; rewrite ?H1, ?H2, ?H3, ?H4, ?H5, ?H6, ?H7, ?H8; reflexivity.
Qed.

(* ... and setting them changes NOTHING else: the 'writing' flag, the dimension, time step, transforms and every tensor slot
   are those of the same writer with the renames left out *)
Theorem renames_invisible ops : forall f g : file, payload f = payload g ->
  payload (fold_left (wstep X D S) ops f) =
  payload (fold_left (wstep X D S) (filter (fun o => negb (is_rename o)) ops) g).
Proof.
  induction ops as [|o ops IH]; intros f g H; [exact H|].
  cbn [fold_left filter]. destruct (is_rename o) eqn:E; cbn [negb].
  - apply IH. rewrite wstep_rename_payload by exact E. exact H.
  - cbn [fold_left]. apply IH. apply wstep_payload_congr. exact H.
Qed.

Lemma import_simple_names (f : file) q : import_simple X D S f = Ok q ->
  s_name X D S q = f_name X D S f /\ s_desc X D S q = f_desc X D S f.
Proof.
  unfold import_simple. destruct (get_slot X 0 (f_init X D S f)); try discriminate.
  destruct (read_mpos X _ 0 (f_mpos X D S f)); try discriminate.
  destruct (read_caps X _ 0 (f_caps X D S f)); try discriminate.
  intros H. injection H as <-. split; reflexivity.
Qed.

(* a file object created with one name, renamed / described any number of times while it is filled, then closed: whatever is
   imported from it carries the attributes set last *)
Theorem names_set_later (p : spt) ops q :
  import_simple X D S (close X D S (fold_left (wstep X D S) ops (create X D S p))) = Ok q ->
  s_name X D S q = last_name ops (s_name X D S p) /\ s_desc X D S q = last_desc ops (s_desc X D S p).
Proof.
  intros H. apply import_simple_names in H. cbn [close f_name f_desc] in H.
  destruct (names_follow_setters p ops) as [Hn Hd]. rewrite <- Hn, <- Hd. exact H.
Qed.

(* the behaviour of a setter that rewrites ALL attributes with writing = false (a well-meant refactoring): a writer that
   renames its file and dies before close() leaves a file that opens cleanly although tensors are missing *)
Definition bad_wstep (f : file) (o : wop X S) : file :=
  match o with
  | WName _ _ n => close X D S (set_name X D S n f)
  | WDesc _ _ n => close X D S (set_desc X D S n f)
  | _ => wstep X D S f o
  end.

Theorem no_clobber (m : mode) :
  (open_mode m true = Replaced <-> m = MOverwrite) /\
  (m = MWrite -> open_mode m true = Refused) /\
  (m = MRead -> open_mode m true = OpenedExisting /\ open_mode m false = Refused).
Proof. destruct m; cbn; repeat split; intros; try discriminate; auto. Qed.

Theorem remove_guard (m : mode) (given : bool) :
  removeable m given = true <-> (m = MOverwrite \/ (m = MWrite /\ given = false)).
Proof. destruct m, given; cbn; split; intros H; try discriminate; auto; destruct H as [H|[H1 H2]]; try discriminate; auto. Qed.

End PTFileSpec.
