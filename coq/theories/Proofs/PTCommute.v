(* Environments whose MPO tensors are diagonal in the system index (rank-3 tensors, no transforms:
   every PT-TEMPO output for a coupling operator that is diagonal in the computational basis)
   act on different bond legs and pointwise on the system leg: they commute, so the order of the
   process-tensor list is irrelevant for them.  Concrete instance of order_independent_partial. *)
From Coq Require Import Arith List Bool Lia Permutation Ring.
From OQ Require Import Lib.RingSum Lib.Tensor Model.Dyn Model.PT Proofs.DynSpec Proofs.PTSpec.
Import ListNotations.

Section PTCommute.
Variable K : Ring.
Add Ring Kring8 : (rth K).
Open Scope rg_scope.
Local Notation T := (T K).

Lemma tab_ext ds : forall f g : list nat -> K,
  (forall idx, Forall2 lt idx ds -> f idx = g idx) -> tab ds f = tab ds g.
Proof.
  induction ds as [|d ds IH]; intros f g H; cbn [tab].
  - f_equal. apply H. constructor.
  - f_equal. apply map_ext_in. intros i Hi. apply in_seq in Hi. apply IH.
    intros idx Hidx. apply H. constructor; [lia|exact Hidx].
Qed.

(* replacing entry j of a valid index tuple by a value below the bond dimension keeps it valid *)
Lemma valid_upd (bs bd : list nat) : forall j a db,
  Forall2 lt bs (upd j db bd) -> a < nth j bd 0 -> Forall2 lt (upd j a bs) bd.
Proof.
  revert bd. induction bs as [|b bs IH]; intros bd j a db H Ha.
  - destruct bd as [|d bd]; [destruct j; constructor|]. destruct j; cbn [upd] in H; inversion H.
  - destruct bd as [|d bd]; [destruct j; cbn [upd] in H; inversion H|].
    destruct j as [|j].
    + cbn [upd nth] in H, Ha |- *. inversion H; subst. constructor; assumption.
    + cbn [upd nth] in H, Ha |- *. inversion H; subst. constructor; [assumption|]. eapply IH; eassumption.
Qed.

Variable dsys : nat.
Variable pts : nat -> ptensor K.
Variable Ms : nat -> mpo K.               (* the MPO tensor of environment j at the current step *)
Variable w : nat -> nat -> nat -> nat -> K.
(* diagonal in the system index *)
Hypothesis Hdiag : forall j a a' i o,
  mpo_fun K (pts j) (Ms j) a a' i o = if Nat.eqb i o then w j a a' o else r0.

Definition denv (j : nat) (v : aug K) : aug K := apply_mpo K dsys j (pts j) (Some (Ms j)) v.

(* one diagonal environment, entry by entry *)
Lemma denv_fun j (cur : T) o bs : o < dsys ->
  sumn (m_da K (Ms j)) (fun a => sumn dsys (fun i =>
     mpo_fun K (pts j) (Ms j) a (nth j bs 0) i o * get (i :: upd j a bs) cur)) =
  sumn (m_da K (Ms j)) (fun a => w j a (nth j bs 0) o * get (o :: upd j a bs) cur).
Proof.
  intros Ho. apply sumn_ext. intros a _.
  rewrite (sumn_ext K dsys _ (fun i => if Nat.eqb i o then w j a (nth j bs 0) o * get (i :: upd j a bs) cur else r0)).
  - rewrite sumn_delta by exact Ho. reflexivity.
  - intros i _. rewrite Hdiag. destruct (Nat.eqb i o); ring.
Qed.

Lemma denv_commute j j' bd cur : j <> j' -> j < length bd -> j' < length bd ->
  nth j bd 0 = m_da K (Ms j) -> nth j' bd 0 = m_da K (Ms j') ->
  denv j (denv j' (bd, cur)) = denv j' (denv j (bd, cur)).
Proof.
  intros Hne Hj Hj' Hda Hda'. unfold denv. cbn [apply_mpo].
  rewrite (upd_upd_comm j j' (m_db K (Ms j)) (m_db K (Ms j')) bd Hne).
  f_equal. apply tab_ext. intros idx Hidx. inversion Hidx as [|o d bs bds Ho Hbs]; subst.
  (* both sides: double sum over the two bond legs *)
  rewrite (denv_fun j _ o bs Ho), (denv_fun j' _ o bs Ho).
  (* inner reads *)
  assert (L : forall a, a < m_da K (Ms j) ->
     get (o :: upd j a bs) (tab (dsys :: upd j' (m_db K (Ms j')) bd) (fun idx => match idx with
        | o0 :: bs0 => sumn (m_da K (Ms j')) (fun a0 => sumn dsys (fun i =>
              mpo_fun K (pts j') (Ms j') a0 (nth j' bs0 0) i o0 * get (i :: upd j' a0 bs0) cur))
        | [] => r0 end)) =
     sumn (m_da K (Ms j')) (fun a' => w j' a' (nth j' bs 0) o * get (o :: upd j' a' (upd j a bs)) cur)).
  { intros a Ha. rewrite get_tab.
    - rewrite (denv_fun j' cur o (upd j a bs) Ho). apply sumn_ext. intros a' _.
      rewrite (nth_upd_other j j' a 0 bs Hne). reflexivity.
    - constructor; [exact Ho|]. apply (valid_upd bs _ j a (m_db K (Ms j))).
      + first [exact Hbs | rewrite (upd_upd_comm j j' _ _ bd Hne); exact Hbs
              | rewrite (upd_upd_comm j' j _ _ bd) by (intro E; apply Hne; symmetry; exact E); exact Hbs].
      + rewrite (nth_upd_other j' j _ 0 bd) by (intro E; apply Hne; symmetry; exact E). rewrite Hda. exact Ha. }
  assert (R : forall a', a' < m_da K (Ms j') ->
     get (o :: upd j' a' bs) (tab (dsys :: upd j (m_db K (Ms j)) bd) (fun idx => match idx with
        | o0 :: bs0 => sumn (m_da K (Ms j)) (fun a0 => sumn dsys (fun i =>
              mpo_fun K (pts j) (Ms j) a0 (nth j bs0 0) i o0 * get (i :: upd j a0 bs0) cur))
        | [] => r0 end)) =
     sumn (m_da K (Ms j)) (fun a => w j a (nth j bs 0) o * get (o :: upd j a (upd j' a' bs)) cur)).
  { intros a' Ha'. rewrite get_tab.
    - rewrite (denv_fun j cur o (upd j' a' bs) Ho). apply sumn_ext. intros a _.
      rewrite (nth_upd_other j' j a' 0 bs) by (intro E; apply Hne; symmetry; exact E). reflexivity.
    - constructor; [exact Ho|]. apply (valid_upd bs _ j' a' (m_db K (Ms j'))).
      + first [exact Hbs | rewrite (upd_upd_comm j j' _ _ bd Hne); exact Hbs
              | rewrite (upd_upd_comm j' j _ _ bd) by (intro E; apply Hne; symmetry; exact E); exact Hbs].
      + rewrite (nth_upd_other j j' _ 0 bd Hne). rewrite Hda'. exact Ha'. }
  rewrite (sumn_ext K (m_da K (Ms j)) _ (fun a => sumn (m_da K (Ms j')) (fun a' =>
       w j a (nth j bs 0) o * (w j' a' (nth j' bs 0) o * get (o :: upd j' a' (upd j a bs)) cur)))).
  2:{ intros a Ha. rewrite (L a Ha). rewrite <- sumn_mul_l. reflexivity. }
  rewrite (sumn_ext K (m_da K (Ms j')) _ (fun a' => sumn (m_da K (Ms j)) (fun a =>
       w j a (nth j bs 0) o * (w j' a' (nth j' bs 0) o * get (o :: upd j' a' (upd j a bs)) cur)))).
  2:{ intros a' Ha'. rewrite (R a' Ha'). rewrite <- sumn_mul_l. apply sumn_ext. intros a _.
      rewrite (upd_upd_comm j j' a a' bs Hne). ring. }
  apply sumn_exchange.
Qed.

(* applying a diagonal environment leaves the bond dimensions of the other legs alone *)
Lemma denv_bonds j bd cur : fst (denv j (bd, cur)) = upd j (m_db K (Ms j)) bd.
Proof. reflexivity. Qed.

Definition ready (js : list nat) (v : aug K) : Prop :=
  forall j, In j js -> j < length (fst v) /\ nth j (fst v) 0 = m_da K (Ms j).

Lemma ready_after j js v : ~ In j js -> ready (j :: js) v -> ready js (denv j v).
Proof.
  intros Hn Hr i Hi. destruct v as [bd cur]. rewrite denv_bonds. cbn [fst] in *.
  destruct (Hr i (or_intror Hi)) as [H1 H2]. rewrite upd_length. split; [exact H1|].
  rewrite nth_upd_other; [exact H2|]. intro E. subst i. contradiction.
Qed.

Theorem diagonal_envs_any_order (js js' : list nat) : Permutation js js' -> NoDup js ->
  forall v, ready js v ->
  fold_left (fun v j => denv j v) js v = fold_left (fun v j => denv j v) js' v.
Proof.
  intros HP. induction HP as [|x l l' HP IH|x y l|l l' l'' HP1 IH1 HP2 IH2]; intros Hnd v Hr.
  - reflexivity.
  - cbn [fold_left]. inversion Hnd; subst. apply IH; [assumption|]. apply ready_after; assumption.
  - cbn [fold_left]. f_equal. destruct v as [bd cur].
    inversion Hnd as [|? ? Hny Hnd']; subst.
    destruct (Hr y (or_introl eq_refl)) as [Hy1 Hy2]. destruct (Hr x (or_intror (or_introl eq_refl))) as [Hx1 Hx2].
    cbn [fst] in *. apply denv_commute; try assumption.
    intro E. subst. apply Hny. left. reflexivity.
  - rewrite (IH1 Hnd v Hr). apply IH2.
    + eapply Permutation_NoDup; eassumption.
    + intros j Hj. apply Hr. eapply Permutation_in; [apply Permutation_sym; exact HP1|exact Hj].
Qed.
End PTCommute.
