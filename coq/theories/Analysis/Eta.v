(* The mathematical meaning of eta_function and of the three cell shapes (real analysis with
   Coquelicot).  c is a continuous real function (apply to the real and the imaginary part of the
   bath correlation function separately); F and G are a first and a second antiderivative:
   F' = c, G' = F (eta_function is G with G(0) = 0).  Then the 2D integrals over square,
   rectangle and upper-triangle cells are the second differences the code evaluates. *)
From Coq Require Import Reals Lra.
From Coquelicot Require Import Coquelicot.

Ltac rsimp := unfold opp, scal, minus, plus, zero, one, mult; simpl; unfold mult, opp, plus, zero, one; simpl;
  unfold mult, opp, plus, zero, one; simpl.

Section Eta.
Variables c F G : R -> R.
Hypothesis dF : forall x, is_derive F x (c x).
Hypothesis dG : forall x, is_derive G x (F x).
Hypothesis c_cont : forall x, continuous c x.

Lemma F_cont x : continuous F x.
Proof. apply (ex_derive_continuous F). eexists. apply dF. Qed.

Lemma shift_cont (f : R -> R) (t' : R) x : (forall y, continuous f y) -> continuous (fun u => f (t' - u)) x.
Proof.
  intros H. apply (continuous_comp (fun u => t' - u) f); [|apply H].
  apply (continuous_minus (fun _ => t') (fun u => u)); [apply continuous_const|apply continuous_id].
Qed.

Lemma der_sub_l (t' x : R) : is_derive (fun u : R => t' - u) x (-1).
Proof. auto_derive; [exact I|ring]. Qed.
Lemma der_sub_r (s x : R) : is_derive (fun u : R => u - s) x 1.
Proof. auto_derive; [exact I|ring]. Qed.

Lemma derive_shift (f df : R -> R) (t' x : R) : (forall y, is_derive f y (df y)) ->
  is_derive (fun u => - f (t' - u)) x (df (t' - x)).
Proof.
  intros H.
  assert (E : df (t' - x) = opp (scal (-1) (df (t' - x)))) by (rsimp; ring).
  rewrite E. apply (is_derive_opp (fun u => f (t' - u)) x (scal (-1) (df (t' - x)))).
  apply (is_derive_comp f (fun u => t' - u) x (df (t' - x)) (-1)); [apply H|apply der_sub_l].
Qed.

(* inner integral over t'': int_a^b c(t' - t'') dt'' = F(t' - a) - F(t' - b) *)
Lemma inner_integral (t' a b : R) :
  is_RInt (fun t'' => c (t' - t'')) a b (F (t' - a) - F (t' - b)).
Proof.
  replace (F (t' - a) - F (t' - b)) with (minus ((fun u => - F (t' - u)) b) ((fun u => - F (t' - u)) a))
    by (rsimp; ring).
  apply (is_RInt_derive (fun u => - F (t' - u)) (fun u => c (t' - u))).
  - intros x _. apply derive_shift. exact dF.
  - intros x _. apply shift_cont. exact c_cont.
Qed.

(* int_a^b F(t') dt' = G(b) - G(a) ;  int_a^b F(t' - s) dt' = G(b - s) - G(a - s) *)
Lemma outer_integral (a b s : R) : is_RInt (fun t' => F (t' - s)) a b (G (b - s) - G (a - s)).
Proof.
  replace (G (b - s) - G (a - s)) with (minus ((fun u => G (u - s)) b) ((fun u => G (u - s)) a)) by (rsimp; ring).
  apply (is_RInt_derive (fun u => G (u - s)) (fun u => F (u - s))).
  - intros x _.
    assert (E : F (x - s) = scal 1 (F (x - s))) by (rsimp; ring).
    rewrite E. apply (is_derive_comp G (fun u => u - s) x (F (x - s)) 1); [apply dG|apply der_sub_r].
  - intros x _. apply (continuous_comp (fun u => u - s) F); [|apply F_cont].
    apply (continuous_minus (fun u => u) (fun _ => s)); [apply continuous_id|apply continuous_const].
Qed.

(* ---- rectangle (the square is the rectangle with t2 = t1 + delta) ------------------------------ *)
(* int_{t1}^{t2} ( int_0^delta c(t' - t'') dt'' ) dt' = G(t2) - G(t1) - G(t2 - delta) + G(t1 - delta) *)
Theorem rectangle_is_second_difference (t1 t2 delta : R) :
  is_RInt (fun t' => RInt (fun t'' => c (t' - t'')) 0 delta) t1 t2
          (G t2 - G t1 - G (t2 - delta) + G (t1 - delta)).
Proof.
  apply (is_RInt_ext (fun t' => F (t' - 0) - F (t' - delta))).
  - intros t' _. symmetry. apply is_RInt_unique. apply inner_integral.
  - replace (G t2 - G t1 - G (t2 - delta) + G (t1 - delta))
      with (minus (G (t2 - 0) - G (t1 - 0)) (G (t2 - delta) - G (t1 - delta)))
      by (rsimp; replace (t2 - 0) with t2 by ring; replace (t1 - 0) with t1 by ring; ring).
    apply (is_RInt_minus (fun t' => F (t' - 0)) (fun t' => F (t' - delta))); apply outer_integral.
Qed.

Corollary square_is_second_difference (t1 delta : R) :
  is_RInt (fun t' => RInt (fun t'' => c (t' - t'')) 0 delta) t1 (t1 + delta)
          (G (t1 + delta) - 2 * G t1 + G (t1 - delta)).
Proof.
  replace (G (t1 + delta) - 2 * G t1 + G (t1 - delta))
    with (G (t1 + delta) - G t1 - G (t1 + delta - delta) + G (t1 - delta))
    by (replace (t1 + delta - delta) with t1 by ring; ring).
  apply rectangle_is_second_difference.
Qed.

(* ---- upper triangle ---------------------------------------------------------------------------- *)
(* int_{t1}^{t1+delta} ( int_0^{t'-t1} c(t' - t'') dt'' ) dt' = G(t1+delta) - G(t1) - delta * F(t1):
   the code's G(t1+delta) - G(t1) only at t1 = 0 (where F(0) may be taken 0) — the repaired code
   subtracts delta * F(t1) *)
Theorem triangle_is_difference (t1 delta : R) :
  is_RInt (fun t' => RInt (fun t'' => c (t' - t'')) 0 (t' - t1)) t1 (t1 + delta)
          (G (t1 + delta) - G t1 - delta * F t1).
Proof.
  apply (is_RInt_ext (fun t' => F (t' - 0) - F t1)).
  - intros t' _. symmetry. apply is_RInt_unique.
    replace (F t1) with (F (t' - (t' - t1))) by (f_equal; ring). apply inner_integral.
  - replace (G (t1 + delta) - G t1 - delta * F t1)
      with (minus (G (t1 + delta - 0) - G (t1 - 0)) (scal (t1 + delta - t1) (F t1)))
      by (rsimp; replace (t1 + delta - 0) with (t1 + delta) by ring; replace (t1 - 0) with t1 by ring; ring).
    apply (is_RInt_minus (fun t' => F (t' - 0)) (fun _ => F t1)); [apply outer_integral|].
    exact (@is_RInt_const R_NormedModule t1 (t1 + delta) (F t1)).
Qed.
End Eta.

(* ---- the kernel of eta_function is the twice-integrated kernel of correlation() ------------------
   correlation() integrates J(w) * exp(-i w t) (T = 0): real part cos(w t), imaginary part -sin(w t).
   eta_function integrates -J(w)/w^2 * ((exp(-i w t) - 1) + i w t): real part (1 - cos(w t))/w^2,
   imaginary part (sin(w t) - w t)/w^2.  These are second antiderivatives vanishing at 0 with
   vanishing first antiderivative at 0, for every frequency w <> 0. *)
Section Kernel.
Variable w : R.
Hypothesis w_nz : w <> 0.

Lemma kernel_re_F x : is_derive (fun t => sin (w * t) / w) x (cos (w * x)).
Proof. auto_derive; [exact I|field; exact w_nz]. Qed.
Lemma kernel_re_G x : is_derive (fun t => (1 - cos (w * t)) / (w * w)) x (sin (w * x) / w).
Proof. auto_derive; [exact I|field; exact w_nz]. Qed.
Lemma kernel_im_F x : is_derive (fun t => (cos (w * t) - 1) / w) x (- sin (w * x)).
Proof. auto_derive; [exact I|field; exact w_nz]. Qed.
Lemma kernel_im_G x : is_derive (fun t => (sin (w * t) - w * t) / (w * w)) x ((cos (w * x) - 1) / w).
Proof. auto_derive; [exact I|field; exact w_nz]. Qed.

Lemma kernel_at_zero :
  (1 - cos (w * 0)) / (w * w) = 0 /\ (sin (w * 0) - w * 0) / (w * w) = 0 /\
  sin (w * 0) / w = 0 /\ (cos (w * 0) - 1) / w = 0.
Proof. rewrite Rmult_0_r, cos_0, sin_0. repeat split; field; exact w_nz. Qed.

(* the real part of the triangle integral is non-negative for a non-negative spectral density *)
Lemma kernel_re_nonneg t : 0 <= (1 - cos (w * t)) / (w * w).
Proof.
  apply Rmult_le_pos.
  - pose proof (COS_bound (w * t)). lra.
  - apply Rlt_le, Rinv_0_lt_compat. destruct (Rdichotomy _ _ w_nz); nra.
Qed.

(* C(-t) = conj C(t) at the level of the kernel *)
Lemma kernel_hermitian t : cos (w * - t) = cos (w * t) /\ - sin (w * - t) = - (- sin (w * t)).
Proof. replace (w * - t) with (- (w * t)) by ring. rewrite cos_neg, sin_neg. split; ring. Qed.
End Kernel.
