(* CPython / NumPy float semantics on binary64, executed with Coq's primitive
   floats (which are IEEE-754 binary64, round-to-nearest-even):
     rint   : np.round / np.rint (half to even) for |x| < 2^52, identity beyond
     trunc  : the float part of int(x)  (truncation toward zero)
     to_Z   : exact integer value of an integral float
   Only definitions here; they are validated bit-for-bit against CPython by the
   correspondence checks (harness/c13.py, c18.py, c07.py). *)
From Coq Require Import ZArith PrimFloat Uint63 FloatOps.
Local Open Scope float_scope.

Definition two52 : float := 0x1p52.

Definition rint (x : float) : float :=
  if PrimFloat.ltb (PrimFloat.abs x) two52 then
    (if PrimFloat.ltb x 0 then - ((- x + two52) - two52) else (x + two52) - two52)
  else x.

Definition ffloor (x : float) : float :=
  let r := rint x in if PrimFloat.ltb x r then r - 1 else r.

Definition fceil (x : float) : float :=
  let r := rint x in if PrimFloat.ltb r x then r + 1 else r.

Definition ftrunc (x : float) : float :=
  if PrimFloat.ltb x 0 then fceil x else ffloor x.

(* exact value of a finite float as m * 2^e *)
Definition to_Z_integral (x : float) : Z :=
  let ax := PrimFloat.abs x in
  let '(m, e) := PrimFloat.frshiftexp ax in
  let mz := Uint63.to_Z (PrimFloat.normfr_mantissa m) in
  let ez := (Uint63.to_Z e - FloatOps.shift - 53)%Z in
  let v := if (0 <=? ez)%Z then (mz * 2 ^ ez)%Z else (mz / 2 ^ (- ez))%Z in
  if PrimFloat.ltb x 0 then (- v)%Z else v.

(* int(x) for finite x *)
Definition py_int (x : float) : Z := to_Z_integral (ftrunc x).
(* int(np.round(x)) *)
Definition py_round (x : float) : Z := to_Z_integral (rint x).

Definition of_Z (z : Z) : float :=
  if (z <? 0)%Z then - PrimFloat.of_uint63 (Uint63.of_Z (- z))
  else PrimFloat.of_uint63 (Uint63.of_Z z).

(* bit pattern as (sign, mantissa, exponent) triple of integers for printing *)
Definition fbits (x : float) : Z * Z * Z :=
  let ax := PrimFloat.abs x in
  let '(m, e) := PrimFloat.frshiftexp ax in
  ((if PrimFloat.ltb x 0 then 1 else if PrimFloat.eqb x 0 then (if PrimFloat.ltb (1 / x) 0 then 1 else 0) else 0)%Z,
   Uint63.to_Z (PrimFloat.normfr_mantissa m),
   if PrimFloat.eqb x 0 then 0%Z else (Uint63.to_Z e - FloatOps.shift)%Z).
