(* Executable list-of-rows matrices over a ring (used for control products and
   for printing).  mmul a b = a @ b. *)
From Coq Require Import List Arith.
From OQ Require Import Lib.RingSum.
Import ListNotations.

Section Mat.
Variable K : Ring.
Open Scope rg_scope.
Definition mat := list (list K).

Definition dot (u v : list K) : K := suml (map (fun p => fst p * snd p) (combine u v)).
Fixpoint transpose_aux (n : nat) (m : mat) : mat :=
  match n with
  | O => []
  | S n' => map (fun r => hd r0 r) m :: transpose_aux n' (map (@tl K) m)
  end.
Definition mtranspose (m : mat) : mat := transpose_aux (length (hd [] m)) m.
Definition mmul (a b : mat) : mat :=
  let bt := mtranspose b in map (fun r => map (fun c => dot r c) bt) a.
Definition mvec (a : mat) (v : list K) : list K := map (fun r => dot r v) a.
Definition mid (n : nat) : mat :=
  map (fun i => map (fun j => if Nat.eqb i j then r1 else r0) (seq 0 n)) (seq 0 n).
End Mat.
Arguments mmul {K}. Arguments mvec {K}. Arguments mid {K}. Arguments mtranspose {K}. Arguments dot {K}.
