(* Dense tensors of arbitrary rank as rose trees, with tabulation.
   [tab ds f] evaluates [f] once per index tuple, so that step-by-step
   contractions do not recompute exponentially under vm_compute;
   [get_tab] is the bridge used by every proof. *)
From Coq Require Import Arith List Lia.
From OQ Require Import Lib.RingSum.
Import ListNotations.

Section Tensor.
Variable K : Ring.
Open Scope rg_scope.

Inductive T := Sc (x : K) | Vec (l : list T).

Fixpoint get (idx : list nat) (t : T) {struct idx} : K :=
  match idx with
  | [] => match t with Sc x => x | Vec _ => r0 end
  | i :: idx' => match t with
                 | Vec l => get idx' (nth i l (Sc r0))
                 | Sc _ => r0
                 end
  end.

Fixpoint tab (ds : list nat) (f : list nat -> K) : T :=
  match ds with
  | [] => Sc (f [])
  | d :: ds' => Vec (map (fun i => tab ds' (fun idx => f (i :: idx))) (seq 0 d))
  end.

Lemma nth_map_seq {A} (g : nat -> A) d i def : i < d -> nth i (map g (seq 0 d)) def = g i.
Proof.
  intros H. rewrite (nth_indep _ def (g 0)) by (rewrite map_length, seq_length; exact H).
  rewrite (map_nth g (seq 0 d) 0 i). rewrite seq_nth by exact H. reflexivity.
Qed.

Lemma get_tab ds : forall f idx, Forall2 lt idx ds -> get idx (tab ds f) = f idx.
Proof.
  induction ds as [|d ds IH]; intros f idx H; inversion H; subst; cbn [tab get].
  - reflexivity.
  - rewrite nth_map_seq by assumption. rewrite IH by assumption. reflexivity.
Qed.

(* sum over all index tuples below [ds] *)
Fixpoint sum_idx (ds : list nat) (f : list nat -> K) : K :=
  match ds with
  | [] => f []
  | d :: ds' => sumn d (fun i => sum_idx ds' (fun idx => f (i :: idx)))
  end.

Lemma sum_idx_ext ds : forall f g, (forall idx, Forall2 lt idx ds -> f idx = g idx) ->
  sum_idx ds f = sum_idx ds g.
Proof.
  induction ds as [|d ds IH]; intros f g H; cbn [sum_idx].
  - apply H. constructor.
  - apply sumn_ext. intros i Hi. apply IH. intros idx Hidx. apply H. constructor; assumption.
Qed.

Fixpoint flat (t : T) : list K :=
  match t with
  | Sc x => [x]
  | Vec l => (fix go (l : list T) := match l with [] => [] | x :: r => flat x ++ go r end) l
  end.

(* list helpers *)
Fixpoint upd {A} (j : nat) (x : A) (l : list A) : list A :=
  match l, j with
  | [], _ => []
  | _ :: t, O => x :: t
  | h :: t, S j' => h :: upd j' x t
  end.

Lemma upd_length {A} j (x : A) l : length (upd j x l) = length l.
Proof. revert j; induction l as [|h t IH]; intros [|j]; cbn [upd length]; auto. Qed.

Lemma nth_upd_same {A} j (x d : A) l : j < length l -> nth j (upd j x l) d = x.
Proof. revert j; induction l as [|h t IH]; intros [|j] H; cbn [upd nth length] in *; try lia; auto. apply IH; lia. Qed.

Lemma nth_upd_other {A} j k (x d : A) l : j <> k -> nth k (upd j x l) d = nth k l d.
Proof. revert j k; induction l as [|h t IH]; intros [|j] [|k] H; cbn [upd nth]; try lia; auto. Qed.

Lemma upd_upd_comm {A} j k (x y : A) l : j <> k -> upd j x (upd k y l) = upd k y (upd j x l).
Proof.
  revert j k; induction l as [|h t IH]; intros [|j] [|k] H; cbn [upd]; try lia; auto.
  f_equal. apply IH. lia.
Qed.

(* vectors and matrices as tensors *)
Definition vecT (l : list K) : T := Vec (map Sc l).
Definition matT (m : list (list K)) : T := Vec (map vecT m).

End Tensor.

Arguments Sc {K}. Arguments Vec {K}. Arguments get {K}. Arguments tab {K}.
Arguments sum_idx {K}. Arguments flat {K}. Arguments vecT {K}. Arguments matT {K}.
