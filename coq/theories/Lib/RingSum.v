(* Finite sums over an arbitrary commutative ring (Leibniz equality).
   Every algebraic theorem of the development is proved over [K : Ring];
   the executable instances are [ZRing] and [GRing] (Gaussian integers). *)
From Coq Require Import Arith ZArith List Lia Ring Ring_theory.
Import ListNotations.

Record Ring := mkRing {
  car :> Type;
  r0 : car; r1 : car;
  radd : car -> car -> car;
  rmul : car -> car -> car;
  rsub : car -> car -> car;
  ropp : car -> car;
  rth : ring_theory r0 r1 radd rmul rsub ropp (@eq car)
}.

Arguments r0 {_}. Arguments r1 {_}.
Arguments radd {_}. Arguments rmul {_}. Arguments rsub {_}. Arguments ropp {_}.

Declare Scope rg_scope.
Delimit Scope rg_scope with rg.
Infix "+" := radd : rg_scope.
Infix "*" := rmul : rg_scope.
Infix "-" := rsub : rg_scope.
Notation "- x" := (ropp x) : rg_scope.

(* ---- instances ---------------------------------------------------- *)

Definition ZRing : Ring := mkRing Z 0%Z 1%Z Z.add Z.mul Z.sub Z.opp Zth.

(* Gaussian integers a + b i as pairs *)
Definition G := (Z * Z)%type.
Definition g0 : G := (0, 0)%Z.
Definition g1 : G := (1, 0)%Z.
Definition gadd (x y : G) : G := (fst x + fst y, snd x + snd y)%Z.
Definition gmul (x y : G) : G :=
  (fst x * fst y - snd x * snd y, fst x * snd y + snd x * fst y)%Z.
Definition gopp (x : G) : G := (- fst x, - snd x)%Z.
Definition gsub (x y : G) : G := gadd x (gopp y).
Definition gconj (x : G) : G := (fst x, - snd x)%Z.

Lemma Gth : ring_theory g0 g1 gadd gmul gsub gopp (@eq G).
Proof.
  constructor; unfold gsub, g0, g1, gadd, gmul, gopp;
    intros; repeat match goal with x : G |- _ => destruct x end;
    cbn [fst snd]; f_equal; ring.
Qed.

Definition GRing : Ring := mkRing G g0 g1 gadd gmul gsub gopp Gth.

(* ---- sums ---------------------------------------------------------- *)

Section Sums.
Variable K : Ring.
Add Ring Kring : (rth K).
Open Scope rg_scope.

Fixpoint sumn (n : nat) (f : nat -> K) : K :=
  match n with
  | O => r0
  | S k => sumn k f + f k
  end.

Lemma sumn_ext n f g : (forall i, i < n -> f i = g i) -> sumn n f = sumn n g.
Proof.
  induction n as [|n IH]; intros H; cbn [sumn]; [reflexivity|].
  rewrite IH by (intros; apply H; lia). rewrite H by lia. reflexivity.
Qed.

Lemma sumn_zero n : sumn n (fun _ => r0) = r0 :> K.
Proof. induction n as [|n IH]; cbn [sumn]; [reflexivity|]. rewrite IH. ring. Qed.

Lemma sumn_zero_ext n f : (forall i, i < n -> f i = r0) -> sumn n f = r0.
Proof. intros H. rewrite (sumn_ext n f (fun _ => r0)) by exact H. apply sumn_zero. Qed.

Lemma sumn_add n f g : sumn n (fun i => f i + g i) = sumn n f + sumn n g.
Proof. induction n as [|n IH]; cbn [sumn]; [ring|]. rewrite IH. ring. Qed.

Lemma sumn_sub n f g : sumn n (fun i => f i - g i) = sumn n f - sumn n g.
Proof. induction n as [|n IH]; cbn [sumn]; [ring|]. rewrite IH. ring. Qed.

Lemma sumn_opp n f : sumn n (fun i => - f i) = - sumn n f.
Proof. induction n as [|n IH]; cbn [sumn]; [ring|]. rewrite IH. ring. Qed.

Lemma sumn_mul_l n c f : sumn n (fun i => c * f i) = c * sumn n f.
Proof. induction n as [|n IH]; cbn [sumn]; [ring|]. rewrite IH. ring. Qed.

Lemma sumn_mul_r n c f : sumn n (fun i => f i * c) = sumn n f * c.
Proof. induction n as [|n IH]; cbn [sumn]; [ring|]. rewrite IH. ring. Qed.

Lemma sumn_exchange n m (f : nat -> nat -> K) :
  sumn n (fun i => sumn m (fun j => f i j)) = sumn m (fun j => sumn n (fun i => f i j)).
Proof.
  induction n as [|n IH]; cbn [sumn].
  - symmetry. apply sumn_zero.
  - rewrite IH. rewrite <- sumn_add. reflexivity.
Qed.

(* Kronecker delta collapse *)
Lemma sumn_delta n k (f : nat -> K) : k < n ->
  sumn n (fun i => if Nat.eqb i k then f i else r0) = f k.
Proof.
  induction n as [|n IH]; intros Hk; [lia|]. cbn [sumn].
  destruct (Nat.eqb_spec n k) as [->|Hne].
  - rewrite sumn_zero_ext; [ring|].
    intros i Hi. destruct (Nat.eqb_spec i k); [lia|reflexivity].
  - rewrite IH by lia. ring.
Qed.

Lemma sumn_delta' n k (f : nat -> K) : k < n ->
  sumn n (fun i => if Nat.eqb k i then f i else r0) = f k.
Proof.
  intros Hk. rewrite <- (sumn_delta n k f Hk). apply sumn_ext. intros i _.
  rewrite Nat.eqb_sym. reflexivity.
Qed.

Lemma sumn_S_first n f : sumn (S n) f = f 0 + sumn n (fun i => f (S i)).
Proof.
  induction n as [|n IH]; [cbn [sumn]; ring|].
  change (sumn (S (S n)) f) with (sumn (S n) f + f (S n)).
  rewrite IH. cbn [sumn]. ring.
Qed.

(* product over a list, and sum over a list *)
Fixpoint prodl (l : list K) : K :=
  match l with [] => r1 | x :: t => x * prodl t end.
Fixpoint suml (l : list K) : K :=
  match l with [] => r0 | x :: t => x + suml t end.

Lemma prodl_app a b : prodl (a ++ b) = prodl a * prodl b.
Proof. induction a as [|x a IH]; cbn [prodl app]; [ring|]. rewrite IH. ring. Qed.
Lemma suml_app a b : suml (a ++ b) = suml a + suml b.
Proof. induction a as [|x a IH]; cbn [suml app]; [ring|]. rewrite IH. ring. Qed.

End Sums.

Arguments sumn {K}. Arguments prodl {K}. Arguments suml {K}.
