(* Python indexing semantics on integers: slice.indices, range, list indexing with
   negative indices.  Executable definitions; validated against CPython exhaustively on
   small lengths by harness/c07.py. *)
From Coq Require Import ZArith List Bool.
Import ListNotations.
Local Open Scope Z_scope.

(* range(start, stop, step) for step <> 0, as a list; fuel bounds the length *)
Definition range_len (start stop step : Z) : Z :=
  if step >? 0 then (if start <? stop then (stop - start - 1) / step + 1 else 0)
  else if step <? 0 then (if stop <? start then (start - stop - 1) / (- step) + 1 else 0)
  else 0.
Definition py_range (start stop step : Z) : list Z :=
  map (fun k => start + Z.of_nat k * step) (seq 0 (Z.to_nat (range_len start stop step))).

(* slice(start, stop, step).indices(len) ; None for step = 0 (ValueError) *)
Definition slice_indices (start stop step : option Z) (len : Z) : option (Z * Z * Z) :=
  let st := match step with None => 1 | Some s => s end in
  if st =? 0 then None else
  let lower := if st <? 0 then -1 else 0 in
  let upper := if st <? 0 then len - 1 else len in
  let norm (x : option Z) (dflt : Z) :=
    match x with
    | None => dflt
    | Some v => if v <? 0 then Z.max (v + len) lower else Z.min v upper
    end in
  Some (norm start (if st <? 0 then upper else lower),
        norm stop (if st <? 0 then lower else upper), st).

(* np.arange(len)[slice] *)
Definition slice_select (start stop step : option Z) (len : Z) : option (list Z) :=
  match slice_indices start stop step len with
  | None => None
  | Some (a, b, s) => Some (py_range a b s)
  end.

(* np.arange(len)[list of ints] : negative indices wrap once, otherwise IndexError *)
Definition index_norm (len i : Z) : option Z :=
  if (0 <=? i) && (i <? len) then Some i
  else if (- len <=? i) && (i <? 0) then Some (i + len)
  else None.
Fixpoint list_select (len : Z) (l : list Z) : option (list Z) :=
  match l with
  | [] => Some []
  | i :: t => match index_norm len i, list_select len t with
              | Some j, Some r => Some (j :: r)
              | _, _ => None
              end
  end.
