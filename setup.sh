#!/bin/bash
# Build the whole Coq development (full .vo build, no -vos) from files on disk.
set -e
cd "$(dirname "$0")/coq"
coq_makefile -f _CoqProject -o Makefile > /dev/null 2>&1
timeout 3000 make -j16 > ../build.log 2>&1 || { tail -40 ../build.log; exit 1; }
cd ..
if grep -rnE '^\s*(Admitted|Axiom|Parameter|Conjecture)\b|\badmit\b|Unset Guard|bypass_check' coq/theories; then echo "forbidden vernacular"; exit 1; fi
mkdir -p evidence replays coq/cases
echo "setup ok"
